#!/usr/bin/env python3
"""Seeded-mutant self-test of the contracts (DESIGN.md section 10).

Each mutant is a small text edit of a scratch copy of /repo (never /repo itself).  For each one the listed
property checks must exit 1 (VIOLATION).  A surviving mutant is a weakness of the contracts.
usage: selftest/mutants.py [name-substring ...]
"""
import os, shutil, subprocess, sys, tempfile, json, functools
print = functools.partial(print, flush=True)

HERE = os.path.dirname(os.path.dirname(os.path.abspath(__file__)))
REPO = os.environ.get('GECS_REPO', '/repo')

ST = 'src/archetype/storage.rs'
GW = 'macros/src/generate/world.rs'
MUTANTS = [
    # name, file, old, new, properties expected to report a violation
    ('resolve_drop_is_free', ST, '(slot.version() != entity.version()) || slot.is_free()', '(slot.version() != entity.version())', ['C03', 'C01']),
    ('resolve_bounds_off_by_one', ST, 'if slot_index_usize >= self.capacity() {', 'if slot_index_usize > self.capacity() {', ['C03']),
    ('direct_bounds_off_by_one', ST, 'if dense_index_usize >= self.len() {', 'if dense_index_usize > self.len() {', ['C03', 'C09']),
    ('destroy_skip_repoint', ST, '''                        slots
                            .get_unchecked_mut(last_slot_index) // SAFETY: See declaration.
                            .assign(dense_index);
''', '', ['C01']),
    ('destroy_no_version_bump', ST, 'self.version = next_version;', '', ['C09']),
    ('destroy_no_free_head', ST, 'self.free_head = SlotIndex::new_free(slot_index);', '', ['C12', 'C01']),
    ('destroy_len_not_decremented', ST, 'self.len -= 1;', '', ['C12']),
    ('create_len_twice', ST, 'self.len += 1;', 'self.len += 1; if self.len < self.capacity { self.len += 1; }', ['C12']),
    ('pwc_err_after_full_check_inverted', ST, '''                    if self.len >= self.capacity() {
                        // If we're full, we should also be at the end of the slot free list.
                        debug_assert!(self.free_head.is_free_end());

                        return Err(data);''', '''                    if self.len > self.capacity() {
                        // If we're full, we should also be at the end of the slot free list.
                        debug_assert!(self.free_head.is_free_end());

                        return Err(data);''', ['C12']),
    ('clone_slots_only_len', ST, 'for idx in 0..self.capacity {', 'for idx in 0..self.len {', ['C13']),
    ('grow_no_double', ST, 'self.capacity.saturating_add(1).saturating_mul(2)', 'self.capacity.saturating_add(0).saturating_mul(2)', ['C12']),
    ('version_compare_dropped', ST, '''                    if entity.version() != self.version() {
                        return None;
                    }
''', '', ['C09']),
    ('slot_release_keeps_version', 'src/archetype/slot.rs', 'self.version = next_version;', '', ['C01', 'C08']),
    ('entity_new_wrong_shift', 'src/entity.rs', 'let key = (slot_index << ARCHETYPE_ID_BITS) | archetype_id;\n        Self { key, version }\n    }\n\n    /// Creates a new entity handle from raw', 'let key = (slot_index << (ARCHETYPE_ID_BITS - 1)) | archetype_id;\n        Self { key, version }\n    }\n\n    /// Creates a new entity handle from raw', ['C14', 'C08']),
    ('try_from_inverted', 'src/entity.rs', '''    fn try_from(entity: EntityAny) -> Result<Self, Self::Error> {
        if entity.archetype_id() == A::ARCHETYPE_ID {''', '''    fn try_from(entity: EntityAny) -> Result<Self, Self::Error> {
        if entity.archetype_id() != A::ARCHETYPE_ID {''', ['C14']),
    ('data_cfg_after_advance', 'macros/src/data.rs', """            if evaluate_cfgs(&cfg_lookup, &archetype.cfgs) == false {
                continue;
            }

            // Advance the archetype ID, either implicitly or from the ID attribute
            last_archetype_id = advance_attribute_id(
                &archetype, //.
                &mut archetype_ids,
                last_archetype_id,
            )?;
""", """            // Advance the archetype ID, either implicitly or from the ID attribute
            last_archetype_id = advance_attribute_id(
                &archetype, //.
                &mut archetype_ids,
                last_archetype_id,
            )?;

            if evaluate_cfgs(&cfg_lookup, &archetype.cfgs) == false {
                continue;
            }
""", ['C15', 'C16']),
    ('data_component_ids_shared', 'macros/src/data.rs', ["""            let mut component_ids = HashMap::new();
            let mut last_component_id = None;
""", """        let mut last_archetype_id = None;
"""], ["""            let mut last_component_id = None;
""", """        let mut last_archetype_id = None;
        let mut component_ids = HashMap::new();
"""], ['C15']),
    ('data_checked_add_two', 'macros/src/data.rs', 'last.checked_add(1)', 'last.checked_add(2)', ['C15']),
    ('data_component_name_from_archetype', 'macros/src/data.rs', 'name: component.name.to_string(),', 'name: archetype.name.to_string(),', ['C15']),
    ('tmpl_destroy_version_outside_loop', 'macros/src/generate/query.rs', ["""                    let len = archetype.len();

                    // Iterate in reverse order to still visit each entity once.""", """                        // The version changes whenever we destroy, so refresh it each step.
                        let version = archetype.version();
"""], ["""                    let version = archetype.version();
                    let len = archetype.len();

                    // Iterate in reverse order to still visit each entity once.""", ""], ['C07', 'C09']),
    ('tmpl_destroy_forward_loop', 'macros/src/generate/query.rs', 'for idx in (0..len).rev() {', 'for idx in 0..len {', ['C07']),
    ('tmpl_destroy_break_not_return', 'macros/src/generate/query.rs', """                            EcsStepDestroy::Break => {
                                return;""", """                            EcsStepDestroy::Break => {
                                break;""", ['C07']),
    ('tmpl_iter_break_not_return', 'macros/src/generate/query.rs', """                            EcsStep::Break => {
                                return;""", """                            EcsStep::Break => {
                                break;""", ['C06']),
    ('tmpl_bind_entity_wrong_index', 'macros/src/generate/query.rs', """        ParseQueryParamType::EntityWild => {
            quote!(&slices.entity[idx])
        }
        ParseQueryParamType::EntityDirect(_) => {
            quote!(&::gecs::__internal::new_entity_direct::<MatchedArchetype>(idx, version))""", """        ParseQueryParamType::EntityWild => {
            quote!(&slices.entity[len - 1 - idx])
        }
        ParseQueryParamType::EntityDirect(_) => {
            quote!(&::gecs::__internal::new_entity_direct::<MatchedArchetype>(idx, version))""", ['C06', 'C07']),
    ('tmpl_destroy_wrong_entity', 'macros/src/generate/query.rs', """                            EcsStepDestroy::ContinueDestroy => {
                                let entity = slices.entity[idx];""", """                            EcsStepDestroy::ContinueDestroy => {
                                let entity = slices.entity[0];""", ['C07']),
    ('bind_component_negated', 'macros/src/generate/query.rs', 'if param.is_cfg_enabled == false || archetype.contains_component(name) {', 'if param.is_cfg_enabled == false || !archetype.contains_component(name) {', ['C05']),
    ('bind_cfg_disabled_no_longer_binds', 'macros/src/generate/query.rs', 'if param.is_cfg_enabled == false || archetype.contains_component(name) {', 'if archetype.contains_component(name) {', ['C05']),
    ('bind_one_of_ambiguity_unchecked', 'macros/src/generate/query.rs', """            if let Some(found) = found {
                return Err(syn::Error::new(""", """            if let (Some(found), true) = (found.clone(), false) {
                return Err(syn::Error::new(""", ['C05']),
    ('bind_entity_name_compare_inverted', 'macros/src/generate/query.rs', """                ParseQueryParamType::Entity(name) => {
                    if param.is_cfg_enabled == false || archetype.name == name.to_string() {""", """                ParseQueryParamType::Entity(name) => {
                    if param.is_cfg_enabled == false || archetype.name != name.to_string() {""", ['C05']),
    ('contains_component_first_only', 'macros/src/data.rs', """            if component.name == name.to_string() {
                return true;
            }
        }
        false""", """            if component.name == name.to_string() {
                return true;
            }
            return false;
        }
        false""", ['C05']),
    ('with_capacity_rejects_limit', ST, 'if capacity > MAX_DATA_CAPACITY as usize {', 'if capacity >= MAX_DATA_CAPACITY as usize {', ['C12']),
    ('from_any_panics_on_match', 'src/entity.rs', """    pub fn from_any(entity: EntityAny) -> Self {
        if entity.archetype_id() != A::ARCHETYPE_ID {""", """    pub fn from_any(entity: EntityAny) -> Self {
        if entity.archetype_id() != A::ARCHETYPE_ID || entity.archetype_id() == 255 {""", ['C14']),
    ('panic_in_critical_section', ST, 'self.version = next_version;', 'self.version = self.version.next();', ['C10']),
    # ---- the generator of the archetype / world layer (R-quote, world unit)
    ('gen_any_resolve_unchecked', GW, 'self.data.resolve(Entity::<Self>::try_from(entity).ok()?)', 'self.data.resolve(Entity::<Self>::from_any_unchecked(entity))', ['C03']),
    ('gen_world_with_capacity_ignored', GW, 'quote!(with_capacity(capacity.#archetype))', 'quote!(new())', ['C12']),
    ('gen_world_clear_events_skipped', GW, '#(self.#archetype.clear_events();)*', '', ['C17']),
    ('gen_select_archetype_id_zero', GW, 'SelectArchetype::#Archetype => #Archetype::ARCHETYPE_ID,', 'SelectArchetype::#Archetype => 0,', ['C14']),
    ('gen_any_destroy_reports_none', GW, '''Ok(SelectEntity::#Archetype(entity)) =>
                                self.#archetype.destroy(entity).map(|_| ()),''', '''Ok(SelectEntity::#Archetype(entity)) =>
                                { self.#archetype.destroy(entity); None },''', ['C01']),
    ('gen_direct_any_never_resolves', GW, 'self.data.resolve(EntityDirect::<Self>::try_from(entity).ok()?)', 'None', ['C09']),
    ('gen_create_wc_reallocates', GW, 'self.data.push_within_capacity(components.into())', 'Ok(self.data.push(components.into()))', ['C12']),
    ('gen_clone_loses_entities', GW, 'data: self.data.clone(),', 'data: #StorageN::with_capacity(self.data.capacity()),', ['C13']),
    ('gen_components_from_clones', GW, '#component: components.#component_index,', '#component: components.#component_index.clone(),', ['C02']),
    ('gen_world_typed_contains_true', GW, '''entity: Entity<#Archetype>,
                    ) -> bool {
                        self.archetype::<#Archetype>().contains(entity)''', '''entity: Entity<#Archetype>,
                    ) -> bool {
                        true''', ['C01']),
    ('find_direct_handle_row_zero', 'macros/src/generate/query.rs', '''        ParseQueryParamType::EntityDirectWild => {
            quote!(&::gecs::__internal::new_entity_direct::<MatchedArchetype>(found.index(), version))
        }
        ParseQueryParamType::OneOf(_) => {
            panic!("must unpack OneOf first")
        }
        ParseQueryParamType::Option(_) => {
            todo!() // Not yet implemented
        }
        ParseQueryParamType::With(_) => {
            todo!() // Not yet implemented
        }
        ParseQueryParamType::Without(_) => {
            todo!() // Not yet implemented
        }
    }
}

#[rustfmt::skip]
fn find_bind_borrow''', '''        ParseQueryParamType::EntityDirectWild => {
            quote!(&::gecs::__internal::new_entity_direct::<MatchedArchetype>(0, version))
        }
        ParseQueryParamType::OneOf(_) => {
            panic!("must unpack OneOf first")
        }
        ParseQueryParamType::Option(_) => {
            todo!() // Not yet implemented
        }
        ParseQueryParamType::With(_) => {
            todo!() // Not yet implemented
        }
        ParseQueryParamType::Without(_) => {
            todo!() // Not yet implemented
        }
    }
}

#[rustfmt::skip]
fn find_bind_borrow''', ['C09']),
    ('find_dispatch_drops_match', 'macros/src/generate/query.rs', '''                    #fetch.map(|found| closure(#(#attrs #bind),*))
                }
                #__WorldSelectTotal::#ArchetypeDirect(#resolved_entity) => {''', '''                    let _called = #fetch.map(|found| closure(#(#attrs #bind),*));
                    None
                }
                #__WorldSelectTotal::#ArchetypeDirect(#resolved_entity) => {''', ['C01']),
    ('gen_any_to_direct_none', GW, '''Ok(SelectEntity::#Archetype(entity)) =>
                                self.#archetype.to_direct(entity).map(|e| e.into()),''', '''Ok(SelectEntity::#Archetype(entity)) =>
                                None,''', ['C09']),
    ('cfg_collect_component_predicates_inverted', 'macros/src/parse/world.rs', '''                    if filter.insert(predicate_string) {
                        result.push(predicate_tokens);
                    }
                }
            }''', '''                    if !filter.insert(predicate_string) {
                        result.push(predicate_tokens);
                    }
                }
            }''', ['C16']),
    ('cfg_table_first_state_forced_true', 'macros/src/parse/cfg.rs', 'cfg_lookup.insert(predicate.to_string(), state);', 'cfg_lookup.insert(predicate.to_string(), state || cfg_lookup.is_empty());', ['C16']),
    ('cfg_evaluate_single_false_predicate_ignored', 'macros/src/data.rs', '''        if *cfg_lookup.get(&predicate).unwrap() == false {
            return false;''', '''        if *cfg_lookup.get(&predicate).unwrap() == false {
            return cfgs.len() > 1;''', ['C16']),
    ('cfg_query_param_any_true_enables', 'macros/src/generate/query.rs', '''        if *cfg_lookup.get(&cfg.predicate.to_string()).unwrap() == false {
            return false;
        }
    }
    return true;''', '''        if *cfg_lookup.get(&cfg.predicate.to_string()).unwrap() == true {
            return true;
        }
    }
    return param.cfgs.is_empty();''', ['C16']),
    ('emit_single_match_rejected', 'macros/src/generate/query.rs', '''    if queries.is_empty() {
        Err(syn::Error::new_spanned(
            world,
            "query matched no archetypes in world",
        ))
    } else {
        Ok(quote!(
            // Use a closure so we can use return to cancel other archetype iterations
            (||{#(#queries)*})()
        ))
    }
}

#[allow(non_snake_case)]
pub fn generate_query_iter_destroy(''', '''    if queries.len() <= 1 {
        Err(syn::Error::new_spanned(
            world,
            "query matched no archetypes in world",
        ))
    } else {
        Ok(quote!(
            // Use a closure so we can use return to cancel other archetype iterations
            (||{#(#queries)*})()
        ))
    }
}

#[allow(non_snake_case)]
pub fn generate_query_iter_destroy(''', ['C05']),
    ('emit_skips_archetype_id_zero', 'macros/src/generate/query.rs', '''            let Archetype = format_ident!("{}", archetype.name);
            let ArchetypeDirect = format_ident!("{}Direct", archetype.name);''', '''            if archetype.id == 0 { continue; }
            let Archetype = format_ident!("{}", archetype.name);
            let ArchetypeDirect = format_ident!("{}Direct", archetype.name);''', ['C05']),
    ('gen_archetype_id_off_by_one', GW, 'let ARCHETYPE_ID = archetype_data.id;', 'let ARCHETYPE_ID = archetype_data.id.saturating_sub(1);', ['C15']),
    ('gen_component_id_flipped', GW, '.map(|component| component.id)', '.map(|component| component.id ^ 1)', ['C15']),
    ('gen_event_iter_skips_archetype', GW, 'next.push(quote!(self.which += 1));', 'next.push(quote!(self.which += 2));', ['C17']),
    ('gen_event_size_hint_skips_current', GW, 'if self.which <= #index as ArchetypeId  {', 'if self.which < #index as ArchetypeId  {', ['C17']),
    ('gen_iter_destroyed_lists_created', GW, '#(#iter: self.#archetype.data.destroyed().iter(),)*', '#(#iter: self.#archetype.data.created().iter(),)*', ['C17']),
    ('gen_iter_created_starts_at_second', GW, '''            fn iter_created(&self) -> impl Iterator<Item = &EntityAny> {
                EcsEventIterator {
                    which: 0,''', '''            fn iter_created(&self) -> impl Iterator<Item = &EntityAny> {
                EcsEventIterator {
                    which: 1,''', ['C17']),
    ('gen_select_try_from_wrong_variant_check', GW, '''                fn try_from(entity: EntityAny) -> Result<Self, EcsError> {
                    match entity.archetype_id() {
                        #(
                            #Archetype::ARCHETYPE_ID => Ok(SelectArchetype::#Archetype),
                        )*
                        _ => Err(EcsError::InvalidEntityType),''', '''                fn try_from(entity: EntityAny) -> Result<Self, EcsError> {
                    match entity.archetype_id().wrapping_add(1) {
                        #(
                            #Archetype::ARCHETYPE_ID => Ok(SelectArchetype::#Archetype),
                        )*
                        _ => Err(EcsError::InvalidEntityType),''', ['C14']),
    ('borrow_slice_mut_whole_capacity', ST, """                        RefMut::map(self.d~I.borrow_mut(), |slice| unsafe {
                            debug_checked_assume!(self.len <= MAX_DATA_CAPACITY as usize);
                            // SAFETY: We guarantee that the storage is valid up to self.len.
                            slice.slice_mut(self.len)""", """                        RefMut::map(self.d~I.borrow_mut(), |slice| unsafe {
                            debug_checked_assume!(self.len <= MAX_DATA_CAPACITY as usize);
                            // SAFETY: We guarantee that the storage is valid up to self.len.
                            slice.slice_mut(self.capacity)""", ['C03', 'C06']),
    ('borrow_component_mut_wrong_row', ST, 'slice.slice_mut(self.source.len).get_unchecked_mut(self.index)', 'slice.slice_mut(self.source.len).get_unchecked_mut(self.source.len - 1 - self.index)', ['C02']),
    ('iter_borrow_mut_row_zero', 'macros/src/generate/query.rs', 'true => quote!(&mut archetype.borrow_slice_mut::<#ident>()[idx]),', 'true => quote!(&mut archetype.borrow_slice_mut::<#ident>()[0]),', ['C02']),
]


def run():
    sel = sys.argv[1:]
    results = []
    for (name, rel, old, new, props) in MUTANTS:
        if sel and not any(s in name for s in sel):
            continue
        tmp = tempfile.mkdtemp(prefix='gv_mut_')
        try:
            for d in ('src', 'macros'):
                shutil.copytree(os.path.join(REPO, d), os.path.join(tmp, d), ignore=shutil.ignore_patterns('target'))
            p = os.path.join(tmp, rel)
            s = open(p).read()
            olds = old if isinstance(old, list) else [old]
            news = new if isinstance(new, list) else [new]
            if any(s.count(o) != 1 for o in olds):
                results.append((name, 'MUTANT-DOES-NOT-APPLY'))
                print(results[-1])
                continue
            for o, nw in zip(olds, news):
                s = s.replace(o, nw)
            open(p, 'w').write(s)
            env = dict(os.environ, GV_NO_KANI=os.environ.get('GV_SELFTEST_KANI', '') and '' or '1', GECS_REPO=tmp, GV_EVID_DIR=os.path.join(tmp, 'evidence'), GV_REPLAY_DIR=os.path.join(tmp, 'replay'),
                       GV_GEN_DIR=os.path.join(tmp, 'gen'))
            verdicts = {}
            for pr in props:
                r = subprocess.run([os.path.join(HERE, 'check'), pr], env=env, stdout=subprocess.PIPE, stderr=subprocess.PIPE)
                out = r.stdout.decode()
                first = [l for l in out.split('\n') if l.startswith('VIOLATION')]
                verdicts[pr] = (r.returncode, first[0][:200] if first else (r.stderr.decode().strip().split('\n')[0][:200]))
            ok = all(v[0] == 1 for v in verdicts.values())
            results.append((name, 'caught' if ok else 'SURVIVED', verdicts))
            print(name, 'caught' if ok else 'SURVIVED')
            for pr, v in verdicts.items():
                print('    ', pr, v[0], v[1])
        finally:
            shutil.rmtree(tmp, ignore_errors=True)
    bad = [r for r in results if r[1] != 'caught']
    print('%d mutants, %d not caught' % (len(results), len(bad)))
    return 1 if bad else 0


sys.exit(run())
