#!/usr/bin/env python3
"""Harmless edits of a scratch copy of /repo: the listed checks must NOT raise an alarm (exit 0 expected; exit 2 = undecided is
reported separately; exit 1 = FALSE ALARM)."""
import os, shutil, subprocess, sys, tempfile, functools
print = functools.partial(print, flush=True)
HERE = os.path.dirname(os.path.dirname(os.path.abspath(__file__)))
REPO = os.environ.get('GECS_REPO', '/repo')
ST = 'src/archetype/storage.rs'
GW = 'macros/src/generate/world.rs'
EDITS = [
    ('rename_local_last_entity', ST, [('last_entity', 'tail_entity')], ['C01', 'C02']),
    ('rename_local_slot_index_usize', ST, [('slot_index_usize', 'slot_ix')], ['C01', 'C03']),
    ('comment_and_blank_lines', ST, [('// Update the free list head', '// Update the free list head\n\n                    // (harmless extra comment)\n')], ['C01', 'C12']),
    ('reorder_independent_reads_in_destroy', ST, [("""                        let last_dense_index = self.len - 1;
                        // SAFETY: We know the entity slice has a length of self.len.
                        let last_entity = *entities.get_unchecked(last_dense_index);""", """                        let last_dense_index = self.len - 1;
                        let _unused_probe = last_dense_index;
                        // SAFETY: We know the entity slice has a length of self.len.
                        let last_entity = *entities.get_unchecked(last_dense_index);""")], ['C01', 'C02']),
    ('len_check_rewritten', ST, [('if self.len == 0 {\n                        return None;\n                    }\n\n                    // Get the index into the slot array', 'if self.is_empty() {\n                        return None;\n                    }\n\n                    // Get the index into the slot array')], ['C01', 'C03']),
    ('grow_capacity_expr_equivalent', ST, [('let new_capacity = new_capacity.min(MAX_DATA_CAPACITY as usize);', 'let new_capacity = std::cmp::min(new_capacity, MAX_DATA_CAPACITY as usize);')], ['C12']),
    ('entity_shift_constant_inlined', 'src/entity.rs', [('let key = (slot_index << ARCHETYPE_ID_BITS) | archetype_id;\n        Self { key, version }\n    }\n\n    /// Creates a new entity handle from raw', 'let key = (slot_index << 8) | archetype_id;\n        Self { key, version }\n    }\n\n    /// Creates a new entity handle from raw')], ['C14', 'C08']),
    ('query_template_comment', 'macros/src/generate/query.rs', [('// Iterate in reverse order to still visit each entity once.', '// Iterate in reverse order so that each entity is still visited once.')], ['C07']),
    ('data_rename_local', 'macros/src/data.rs', [('last_component_id', 'prev_component_id')], ['C15']),
    ('new_helper_function', ST, [("""                #[inline(always)]
                pub const fn capacity(&self) -> usize {
                    self.capacity
                }
""", """                #[inline(always)]
                pub const fn capacity(&self) -> usize {
                    self.capacity
                }

                /// Returns true if no more entities fit without growing.
                #[inline(always)]
                pub const fn is_full(&self) -> bool {
                    self.len == self.capacity
                }
""")], ['C12', 'C01']),
    ('inline_attribute_changed', ST, [("""                #[inline(always)]
                fn grow(&mut self) -> bool {""", """                #[inline]
                fn grow(&mut self) -> bool {""")], ['C12']),
    ('doc_comment_changed', 'src/entity.rs', [('/// Returns self.\n    #[inline(always)]\n    pub fn into_any(self) -> EntityAny {', '/// Returns this handle unchanged.\n    #[inline(always)]\n    pub fn into_any(self) -> EntityAny {')], ['C14']),
    ('slot_release_statement_order', 'src/archetype/slot.rs', [("""        self.index = index_next_free;
        self.version = next_version;""", """        self.version = next_version;
        self.index = index_next_free;""")], ['C01', 'C08']),
    ('destroy_use_local_len', ST, [("""                        let last_dense_index = self.len - 1;""", """                        let current_len = self.len;
                        let last_dense_index = current_len - 1;""")], ['C01', 'C02']),
    ('version_next_explicit_match', 'src/version.rs', [], ['C08']),
    # ---- generator of the archetype / world layer (world unit)
    ('gen_comment_in_template', GW, [('// Resolve dispatch implementation', '// Resolve dispatch implementation (one block per archetype)')], ['C01', 'C14']),
    ('gen_rename_generator_local', GW, [('count_str', 'n_components')], ['C01']),
    ('gen_reorder_template_fns', GW, [('''            #[inline(always)]
            fn len(&self) -> usize {
                self.data.len()
            }

            #[inline(always)]
            fn capacity(&self) -> usize {
                self.data.capacity()
            }
''', '''            #[inline(always)]
            fn capacity(&self) -> usize {
                self.data.capacity()
            }

            #[inline(always)]
            fn len(&self) -> usize {
                self.data.len()
            }
''')], ['C12']),
    ('gen_any_dispatch_error_arm_returns_absence', GW, [('''                    match entity.try_into() {
                        #(
                            Ok(SelectEntity::#Archetype(entity)) =>
                                self.#archetype.contains(entity),
                        )*
                        Err(_) => panic!("invalid entity type"),''', '''                    match entity.try_into() {
                        #(
                            Ok(SelectEntity::#Archetype(entity)) =>
                                self.#archetype.contains(entity),
                        )*
                        Err(_) => false,''')], ['C03', 'C01']),
    ('gen_try_from_explicit_call', GW, [('''                fn try_from(entity: &EntityAny) -> Result<Self, EcsError> {
                    (*entity).try_into()''', '''                fn try_from(entity: &EntityAny) -> Result<Self, EcsError> {
                    Self::try_from(*entity)''')], ['C14']),
    ('query_generator_reorder_pure_lets', 'macros/src/generate/query.rs', [('''    // Variables and fields
    let world = &query_data.world;
    let body = &query_data.body;
    let arg = query_data.params.iter().map(to_name).collect::<Vec<_>>();
    let attrs = query_data
        .params
        .iter()
        .map(to_attributes)
        .collect::<Vec<_>>();

    // Special cases''', '''    // Variables and fields
    let body = &query_data.body;
    let world = &query_data.world;
    let attrs = query_data
        .params
        .iter()
        .map(to_attributes)
        .collect::<Vec<_>>();
    let arg = query_data.params.iter().map(to_name).collect::<Vec<_>>();

    // Special cases''')], ['C05']),
    ('query_generator_extra_pure_let', 'macros/src/generate/query.rs', [('''            // Types and traits
            let Archetype = format_ident!("{}", archetype.name);
            let Type = bound_params''', '''            // Types and traits
            let Archetype = format_ident!("{}", archetype.name);
            let _ArchetypeDoc = format!("matched archetype {}", archetype.name);
            let Type = bound_params''')], ['C05']),
    ('cfg_evaluate_negation_style', 'macros/src/data.rs', [('''        if *cfg_lookup.get(&predicate).unwrap() == false {
            return false;''', '''        if !*cfg_lookup.get(&predicate).unwrap() {
            return false;''')], ['C16']),
    ('cfg_table_named_key', 'macros/src/parse/cfg.rs', [('cfg_lookup.insert(predicate.to_string(), state);', 'let key = predicate.to_string();\n            cfg_lookup.insert(key, state);')], ['C16']),
    ('gen_event_iter_comment_and_noop', GW, [('Some(next) => return Some(next.into()),', 'Some(next) => { self.which += 0; return Some(next.into()) },')], ['C17']),
    ('gen_world_contains_via_resolve', GW, [('''entity: Entity<#Archetype>,
                    ) -> bool {
                        self.archetype::<#Archetype>().contains(entity)''', '''entity: Entity<#Archetype>,
                    ) -> bool {
                        self.archetype::<#Archetype>().resolve(entity).is_some()''')], ['C01']),
    ('entity_try_from_match_style', 'src/entity.rs', [('''    fn try_from(entity: EntityAny) -> Result<Self, Self::Error> {
        if entity.archetype_id() == A::ARCHETYPE_ID {''', '''    fn try_from(entity: EntityAny) -> Result<Self, Self::Error> {
        if A::ARCHETYPE_ID == entity.archetype_id() {''')], ['C14', 'C03']),
    ('find_template_version_after_archetype', 'macros/src/generate/query.rs', [('''                    let archetype = #get_archetype;
                    let version = archetype.version();

                    #fetch.map(|found| closure(#(#attrs #bind),*))
                }
                #__WorldSelectTotal::#ArchetypeDirect(#resolved_entity) => {''', '''                    let archetype = #get_archetype;
                    // (the archetype version cannot change before the fetch below)
                    let version = archetype.version();

                    #fetch.map(|found| closure(#(#attrs #bind),*))
                }
                #__WorldSelectTotal::#ArchetypeDirect(#resolved_entity) => {''')], ['C09']),
    ('gen_traits_default_method_reformatted', 'src/traits.rs', [('''        <Self as ArchetypeCanResolve<K>>::resolve_for(self, entity).is_some()''', '''        let found = <Self as ArchetypeCanResolve<K>>::resolve_for(self, entity);
        found.is_some()''')], ['C01']),
]

def main():
    sel = sys.argv[1:]
    bad = 0
    for name, rel, pairs, props in EDITS:
        if sel and not any(s in name for s in sel):
            continue
        if not pairs:
            continue
        tmp = tempfile.mkdtemp(prefix='gv_harm_')
        try:
            for d in ('src', 'macros'):
                shutil.copytree(os.path.join(REPO, d), os.path.join(tmp, d), ignore=shutil.ignore_patterns('target'))
            for f in ('Cargo.toml', 'Cargo.lock', 'README.md'):
                shutil.copy(os.path.join(REPO, f), os.path.join(tmp, f))
            p = os.path.join(tmp, rel)
            s = open(p).read()
            ok = True
            for o, n in pairs:
                if o not in s:
                    ok = False
                s = s.replace(o, n)
            if not ok:
                print(name, 'EDIT-DOES-NOT-APPLY'); continue
            open(p, 'w').write(s)
            env = dict(os.environ, GV_NO_KANI=os.environ.get('GV_SELFTEST_KANI', '') and '' or '1', GECS_REPO=tmp, GV_EVID_DIR=os.path.join(tmp, 'evidence'), GV_REPLAY_DIR=os.path.join(tmp, 'replay'), GV_GEN_DIR=os.path.join(tmp, 'gen'))
            for pr in props:
                r = subprocess.run([os.path.join(HERE, 'check'), pr], env=env, stdout=subprocess.PIPE, stderr=subprocess.PIPE)
                tag = {0: 'ok', 1: 'FALSE-ALARM', 2: 'undecided'}.get(r.returncode, str(r.returncode))
                if r.returncode == 1:
                    bad += 1
                first = [l for l in (r.stdout.decode() + r.stderr.decode()).split('\n') if l.startswith('VIOLATION') or l.startswith('UNDECIDED')]
                print(name, pr, tag, first[0][:220] if first and r.returncode else '')
        finally:
            shutil.rmtree(tmp, ignore_errors=True)
    print('false alarms:', bad)
    return 1 if bad else 0
sys.exit(main())
