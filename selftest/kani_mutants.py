#!/usr/bin/env python3
"""Self-test of the loop-free full-domain Kani harnesses (DESIGN.md 5.1a): each mutant of a DataPtr / raw-iterator body, applied to
a scratch copy of /repo (never /repo itself), must make the listed harness FAIL; on the unmutated copy every listed harness must be
SUCCESSFUL.  A harness that still succeeds on its mutant is vacuous or too weak.
usage: selftest/kani_mutants.py [name-substring ...]      (env GV_KANI_TARGET: cargo target dir, default gen/kani_target)
"""
import functools
import json
import os
import shutil
import subprocess
import sys
import tempfile

print = functools.partial(print, flush=True)
HERE = os.path.dirname(os.path.dirname(os.path.abspath(__file__)))
REPO = os.environ.get('GECS_REPO', '/repo')
ST = 'src/archetype/storage.rs'
IT = 'src/archetype/iter.rs'


def nth(s, old, new, n):
    """replace the n-th (0-based) occurrence"""
    parts = s.split(old)
    if len(parts) <= n + 1:
        return None
    return old.join(parts[:n + 1]) + new + old.join(parts[n + 1:])


MUTANTS = [
    # name, file, old, new, occurrence, harnesses that must fail
    ('iter_next_columns_not_advanced', IT, '#(self.ptr_d~I = self.ptr_d~I.offset(1);)*', '', 0, ['iter_full_step_iter2']),
    ('iter_mut_next_handle_not_advanced', IT, 'self.ptr_entity = self.ptr_entity.offset(1);', '', 1, ['iter_full_step_iter_mut2']),
    ('iter_next_yields_after_advance', IT, '''                        let result = (&*self.ptr_entity, #(&*self.ptr_d~I,)*);

                        self.ptr_entity = self.ptr_entity.offset(1);
                        #(self.ptr_d~I = self.ptr_d~I.offset(1);)*
''', '''                        self.ptr_entity = self.ptr_entity.offset(1);
                        #(self.ptr_d~I = self.ptr_d~I.offset(1);)*
                        let result = (&*self.ptr_entity, #(&*self.ptr_d~I,)*);
''', 0, ['iter_full_step_iter2']),
    ('iter_ctor_remaining_is_capacity', ST, 'remaining: self.len,', 'remaining: self.capacity,', 0, ['iter_full_ctor_storage2']),
    ('swap_remove_hole_not_filled_near_tail', ST, 'ptr::copy(array_ptr.add(last), array_ptr.add(index), 1);',
     'if index + 1 != last { ptr::copy(array_ptr.add(last), array_ptr.add(index), 1); }', 0, ['dataptr_full_swap_remove_odd']),
    ('slice_mut_one_short', ST, 'slice::from_raw_parts_mut(self.0.as_ptr() as *mut T, len)',
     'slice::from_raw_parts_mut(self.0.as_ptr() as *mut T, len.saturating_sub(1))', 0, ['dataptr_full_write_slice_u64']),
    ('write_wrong_cell_at_zero', ST, '(*self.0.as_ptr().add(index)).write(val);',
     '(*self.0.as_ptr().add(if index == 0 && mem::size_of::<T>() == 8 { 1 } else { index })).write(val);', 0, ['dataptr_full_write_slice_u64']),
]


def run_harnesses(repo, names):
    code = ('import sys, json; sys.path.insert(0, %r); from gv import kani; '
            'hs = [h for h in kani.registry()["harnesses"] if h["name"] in %r]; '
            'print("RESULT " + json.dumps({r["harness"]: r["status"] for r in kani.run(hs)}))' % (HERE, names))
    env = dict(os.environ, GECS_REPO=repo)
    p = subprocess.run([sys.executable, '-c', code], env=env, stdout=subprocess.PIPE, stderr=subprocess.STDOUT)
    for line in p.stdout.decode('utf-8', 'replace').split('\n'):
        if line.startswith('RESULT '):
            return json.loads(line[7:])
    return {'error': p.stdout.decode('utf-8', 'replace')[-600:]}


def scratch():
    tmp = tempfile.mkdtemp(prefix='gv_kmut_')
    for item in ('src', 'macros', 'Cargo.toml', 'Cargo.lock', 'README.md'):
        s = os.path.join(REPO, item)
        if os.path.isdir(s):
            shutil.copytree(s, os.path.join(tmp, item), ignore=shutil.ignore_patterns('target'))
        elif os.path.exists(s):
            shutil.copy(s, os.path.join(tmp, item))
    return tmp


def main():
    sel = sys.argv[1:]
    bad = 0
    todo = [m for m in MUTANTS if not sel or any(x in m[0] for x in sel)]
    allh = sorted(set(h for m in todo for h in m[5]))
    tmp = scratch()
    try:
        base = run_harnesses(tmp, allh)
    finally:
        shutil.rmtree(tmp, ignore_errors=True)
    print('unmutated:', base)
    if any(base.get(h) != 'SUCCESSFUL' for h in allh):
        print('BASELINE NOT SUCCESSFUL')
        bad += 1
    for (name, rel, old, new, occ, hs) in todo:
        tmp = scratch()
        try:
            p = os.path.join(tmp, rel)
            s = nth(open(p).read(), old, new, occ)
            if s is None:
                print(name, 'MUTANT-DOES-NOT-APPLY')
                bad += 1
                continue
            open(p, 'w').write(s)
            res = run_harnesses(tmp, hs)
            ok = all(res.get(h) == 'FAILED' for h in hs)
            print(name, 'caught' if ok else 'SURVIVED', res)
            bad += 0 if ok else 1
        finally:
            shutil.rmtree(tmp, ignore_errors=True)
    print('%d mutants, %d not caught' % (len(todo), bad))
    return 1 if bad else 0


sys.exit(main())
