"""R-seq: instantiate `macro_rules! declare_*_n` + `seq!(I in 0..$n { .. })` for a fixed N.

Only the two forms the repository (and the sidecar, which is written in the
same notation) use are supported: `#( ... )*` repetition over I in 0..N and
`~I` / bare `I` substitution inside a repetition.  `$param` macro parameters are
substituted from the `declare_*_n!( .. )` invocation.
"""
import re
from . import rustscan as rs


class SeqError(Exception):
    pass


def macro_def(text, name):
    """Return (param_names, body_text, body_start_offset) of `macro_rules! name { (params) => { body }; }`"""
    msk = rs.mask(text)
    m = re.search(r'macro_rules!\s+%s\s*\{' % re.escape(name), msk)
    if not m:
        raise SeqError('macro %s not found' % name)
    outer_open = m.end() - 1
    popen = msk.find('(', outer_open)
    pclose = rs.match_close(msk, popen)
    params = re.findall(r'\$(\w+)\s*:\s*\w+', msk[popen:pclose])
    arrow = msk.find('=>', pclose)
    bopen = msk.find('{', arrow)
    bclose = rs.match_close(msk, bopen)
    return params, text[bopen + 1:bclose], bopen + 1


def macro_args(text, name, var='N'):
    """Arguments of the first `name!( ... )` invocation (with ~N left in place)."""
    msk = rs.mask(text)
    m = re.search(r'\b%s!\s*\(' % re.escape(name), msk)
    if not m:
        raise SeqError('invocation of %s! not found' % name)
    close = rs.match_close(msk, m.end() - 1)
    raw = text[m.end():close]
    raw = re.sub(r'/\*@[^*]*\*/', '', raw)
    raw = re.sub(r'//[^\n]*', '', raw)
    return [a.strip() for a in rs.split_top_commas(raw) if a.strip()]


def unwrap_seq(body):
    """body is `seq!(I in 0..$n { INNER });` -> INNER"""
    msk = rs.mask(body)
    m = re.search(r'seq!\s*\(\s*(\w+)\s+in\s+0\s*\.\.\s*(\$?\w+)\s*\{', msk)
    if not m:
        raise SeqError('seq! wrapper not found in macro body')
    bopen = m.end() - 1
    bclose = rs.match_close(msk, bopen)
    return m.group(1), body[bopen + 1:bclose]


def subst_index(s, var, i):
    s = re.sub(r'~%s\b' % var, str(i), s)
    s = re.sub(r'(?<![\w$])%s\b(?!\w)' % var, str(i), s)
    return s


def expand_reps(text, var, n):
    """Expand every `#( ... )*` (optionally with a separator char before *) for var in 0..n."""
    while True:
        msk = rs.mask(text)
        # find the first `#(` that is a repetition (not an attribute `#[`)
        pos = -1
        start = 0
        while True:
            p = msk.find('#(', start)
            if p < 0:
                break
            pos = p
            break
        if pos < 0:
            return text
        close = rs.match_close(msk, pos + 1)
        j = close + 1
        sep = ''
        if j < len(msk) and msk[j] != '*':
            sep = text[j]
            j += 1
        if j >= len(msk) or msk[j] != '*':
            raise SeqError('repetition without `*` near %r' % text[pos:pos + 60])
        inner = text[pos + 2:close]
        if '#(' in rs.mask(inner):
            raise SeqError('nested repetition is not supported')
        pieces = [subst_index(inner, var, i) for i in range(n)]
        text = text[:pos] + sep.join(pieces) + text[j + 1:]


def instantiate(text, macro_name, n, var_outer='N'):
    """Instantiate macro `macro_name` of `text` for N = n.  Returns the expanded item text."""
    params, body, _ = macro_def(text, macro_name)
    args = macro_args(text, macro_name, var_outer)
    if len(args) != len(params):
        raise SeqError('%s: %d params vs %d args' % (macro_name, len(params), len(args)))
    binding = {}
    for p, a in zip(params, args):
        a = re.sub(r'~%s\b' % var_outer, str(n), a)
        if a == var_outer:
            a = str(n)
        binding[p] = a
    var, inner = unwrap_seq(body)

    def sub(m):
        if m.group(1) not in binding:
            raise SeqError('unbound macro parameter $%s' % m.group(1))
        return binding[m.group(1)]
    inner = re.sub(r'\$(\w+)', sub, inner)
    return expand_reps(inner, var, n), binding


def instantiate_sidecar(text, binding, var, n):
    """Sidecar text for the storage macro is written in the macro's own notation."""
    def sub(m):
        if m.group(1) in binding:
            return binding[m.group(1)]
        return m.group(0)
    text = re.sub(r'\$(\w+)', sub, text)
    return expand_reps(text, var, n)
