"""R-unwind: mechanical ghost flag for C10 (panic safety of `&mut self` storage methods).

`unwind_ok` is true while no field of `self` has been written or mutably
borrowed since entry.  Before every statement that contains a call of a
may-panic function the extractor inserts `assert(unwind_ok)`: a documented
panic may only start unwinding from a state that is still the (well-formed)
entry state.  May-panic = contains a documented panic (`gecs_panic(..)`,
`.gecs_expect(..)` after R-panic) or calls, by name, a function that does
(transitive, over-approximate).
"""
import re
from . import rustscan as rs
from .extract import strip_markers, ExtractError

PANIC_PRIMS = re.compile(r'\bgecs_panic\s*\(|\.gecs_expect\s*\(')

MUT_CALLS = ('swap_remove', 'write', 'grow', 'slice_mut', 'raw_data', 'push', 'clear', 'dealloc', 'drop_to',
             'get_mut', 'ptr_data', 'insert', 'remove', 'pop', 'truncate', 'drain', 'borrow_mut')
MUT_LINE = re.compile(r'\bself\s*\.\s*\w+\s*(?:\.\s*get_mut\s*\(\s*\)\s*)?\.\s*(?:%s)\s*\(' % '|'.join(MUT_CALLS))
ASSIGN_LINE = re.compile(r'\bself\s*\.\s*\w+\s*(?:[-+*/|&^]|<<|>>)?=(?!=)')
MUTBORROW_LINE = re.compile(r'&\s*mut\s+self\s*\.\s*\w+')


def maypanic_names(texts):
    """texts: iterable of transformed source texts.  Returns the set of function names that may raise a documented panic."""
    bodies = {}
    for text in texts:
        msk = rs.mask(text)
        for m in re.finditer(r'\bfn\s+(\w+)', msk):
            i = m.end()
            p = msk.find('(', i)
            if p < 0:
                continue
            try:
                pc = rs.match_close(msk, p)
            except rs.ScanError:
                continue
            b = rs.find_depth0(msk, pc + 1, '{;')
            if b < 0 or msk[b] != '{':
                continue
            bc = rs.match_close(msk, b)
            bodies.setdefault(m.group(1), []).append(msk[b:bc + 1])
    may = set(n for n, bs in bodies.items() if any(PANIC_PRIMS.search(b) for b in bs))
    changed = True
    while changed:
        changed = False
        for n, bs in bodies.items():
            if n in may:
                continue
            for b in bs:
                if any(re.search(r'(?:\.|::|\b)%s\s*(?:::<[^>]*>)?\s*\(' % re.escape(c), b) for c in may):
                    may.add(n)
                    changed = True
                    break
    return may


def make_unwind(cfg, may=None, type_key_prefix='Storage'):
    def unwind(text, msk, fns, fspec, log, in_dropped):
        edits = []
        names = may if may is not None else maypanic_names([text])
        if not names:
            return edits
        call_re = re.compile(r'(?:\.|::|\b)(%s)\s*(?:::<[^>]*>)?\s*\(' % '|'.join(sorted(re.escape(n) for n in names)))
        for f in fns:
            if in_dropped(f.fn_pos) or not f.has_body or not f.mut_self:
                continue
            if f.block is None or not (f.block.key.startswith(type_key_prefix) or (' for ' + type_key_prefix) in strip_markers(text[f.block.header_start:f.block.open]) or ('for' + type_key_prefix) in f.block.key):
                continue
            spec = fspec.fns.get(f.key)
            if spec is not None and spec.kind == 'externbody':
                continue
            body_m = msk[f.body_open:f.body_close + 1]
            sites = [m for m in call_re.finditer(body_m)] + [m for m in PANIC_PRIMS.finditer(body_m)]
            # a function's own name inside its signature is not in the body, so no self-match
            if not sites:
                continue
            ind = '    '
            edits.append((f.body_open + 1, 0, '\nlet ghost mut unwind_ok = true; // R-unwind\n'))
            done_lines = set()
            for m in sites:
                pos = f.body_open + m.start()
                s = stmt_start(text, msk, pos, f.body_open)
                if s in done_lines:
                    continue
                done_lines.add(s)
                what = strip_markers(text[f.body_open + m.start():f.body_open + m.end()]).strip('.:( ')
                edits.append((s, 0, 'assert(unwind_ok); // UNWIND-OBLIGATION before may-panic call %s //~ C10\n' % what))
                log.rule('R-unwind', '%s: obligation before %s' % (f.key, what))
            # mutation points
            pos = f.body_open + 1
            mut_done = set()
            for lm in re.finditer(r'[^\n]*\n', msk[f.body_open + 1:f.body_close]):
                ls = f.body_open + 1 + lm.start()
                line = lm.group(0)
                if MUT_LINE.search(line) or ASSIGN_LINE.search(line) or MUTBORROW_LINE.search(line):
                    e = stmt_end_after(msk, ls, f.body_close)
                    if e is None:
                        # mutation inside a tail expression: clear the flag before the expression (conservative)
                        s0 = stmt_start(text, msk, ls + len(line) - len(line.lstrip()), f.body_open)
                        if ('b', s0) in mut_done:
                            continue
                        mut_done.add(('b', s0))
                        edits.append((s0, 0, 'proof { unwind_ok = false; } // R-unwind (tail)\n'))
                        continue
                    if e in mut_done:
                        continue
                    mut_done.add(e)
                    edits.append((e, 0, ' proof { unwind_ok = false; } // R-unwind'))
        return edits
    return unwind


def stmt_start(text, msk, pos, body_open):
    """Start of the line on which the statement containing `pos` begins."""
    ls = rs.line_start(text, pos)
    while ls > body_open:
        prev_end = ls - 1
        pls = rs.line_start(text, prev_end)
        if pls <= body_open:
            break
        prev = msk[pls:prev_end].strip()
        if prev == '' or prev.endswith(';') or prev.endswith('{') or prev.endswith('}'):
            break
        ls = pls
    return ls


def stmt_end_after(msk, ls, limit):
    """Position just after the `;` ending the statement that contains the line starting at ls; None for a tail expression."""
    depth = 0
    i = ls
    while i < limit:
        ch = msk[i]
        if ch == ';' and depth <= 0:
            return i + 1
        if ch in rs.OPEN:
            depth += 1
        elif ch in rs.CLOSE:
            depth -= 1
            if depth < 0 and ch == '}':
                return None
        i += 1
    return None
