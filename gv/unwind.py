"""R-unwind: mechanical ghost flag for C10 (panic safety of `&mut self` storage methods).

`unwind_ok` is true while no field of `self` has been written or mutably
borrowed since entry.  Before every statement that contains a call of a
may-panic function the extractor inserts `assert(unwind_ok)`: a documented
panic may only start unwinding from a state that is still the (well-formed)
entry state.  May-panic = contains a documented panic (`gecs_panic(..)`,
`.gecs_expect(..)` after R-panic) or calls a function that does (transitive).

Call resolution is syntactic and over-approximate:
  self.f( / Self::f( / <Self as Tr>::f(   -> every extracted fn `f` of the same type (inherent and trait impls)
  Type::f(  with Type an extracted type     -> every extracted fn `f` of that type
  expr.f(   (unknown receiver)              -> every extracted fn named `f` of any type
  X::f(     with X not an extracted type    -> unresolved (generic parameter or external: trait methods
                                               implemented by generated code are assumed not to panic, A-gen)
  f(        free call                       -> extracted free fn `f`
"""
import re
from . import rustscan as rs
from .extract import strip_markers, find_blocks, find_fns, ExtractError

PANIC_PRIMS = re.compile(r'\bgecs_panic\s*\(|\.gecs_expect\s*\(')

MUT_CALLS = ('swap_remove', 'write', 'grow', 'slice_mut', 'raw_data', 'push', 'clear', 'dealloc', 'drop_to',
             'get_mut', 'ptr_data', 'insert', 'remove', 'pop', 'truncate', 'drain', 'borrow_mut')
MUT_LINE = re.compile(r'\bself\s*\.\s*\w+\s*(?:\.\s*get_mut\s*\(\s*\)\s*)?\.\s*(?:%s)\s*\(' % '|'.join(MUT_CALLS))
ASSIGN_LINE = re.compile(r'\bself\s*\.\s*\w+\s*(?:[-+*/|&^]|<<|>>)?=(?!=)')
MUTBORROW_LINE = re.compile(r'&\s*mut\s+self\s*\.\s*\w+')

CALL = re.compile(r'(\w+)\s*(?:::\s*<[^()]*?>)?\s*\(')
KEYWORDS = {'if', 'while', 'for', 'match', 'return', 'fn', 'loop', 'Some', 'Ok', 'Err', 'None', 'assert', 'proof',
            'forall', 'exists', 'old', 'final', 'choose'}


def type_of_key(block_key):
    if block_key is None:
        return None
    k = block_key
    if 'for' in k:
        # normalised keys have no spaces: "Trait<..>forType<..>"
        m = re.search(r'for([A-Za-z_]\w*)(?:<.*)?$', k)
        if m:
            return m.group(1)
    return re.sub(r'<.*$', '', k)


class FnInfo:
    pass


def collect_fns(texts):
    infos = []
    for text in texts:
        msk = rs.mask(text)
        blocks = find_blocks(text, msk)
        for f in find_fns(text, msk, blocks):
            if not f.has_body:
                continue
            fi = FnInfo()
            fi.name = f.name
            fi.type = type_of_key(f.block.key) if f.block is not None else None
            fi.body = msk[f.body_open:f.body_close + 1]
            infos.append(fi)
    return infos


def classify_sites(body_msk, cur_type, known_types):
    """Yield (pos, end, kind, type_or_None, name) for every call site in a masked body."""
    for m in CALL.finditer(body_msk):
        name = m.group(1)
        if name in KEYWORDS or name[0].isdigit():
            continue
        pre = body_msk[:m.start()].rstrip()
        if pre.endswith('!'):
            continue
        if pre.endswith('.'):
            pre2 = pre[:-1].rstrip()
            if re.search(r'(?<![\w.])self$', pre2):
                yield (m.start(), m.end(), 'type', cur_type, name)
            elif re.search(r'(?<![\w.])self\s*\.\s*\w+(?:\s*\.\s*\w+\s*(?:\([^()]*\))?)*$', pre2):
                # method of a field of self: never a method of the current type itself
                yield (m.start(), m.end(), 'anyfield', cur_type, name)
            else:
                yield (m.start(), m.end(), 'any', None, name)
        elif pre.endswith('::'):
            pre2 = pre[:-2].rstrip()
            if pre2.endswith('>'):
                # qualified path <X as Trait<..>>::f  -- find the matching '<'
                depth = 0
                j = len(pre2) - 1
                while j >= 0:
                    if pre2[j] == '>' and (j == 0 or pre2[j - 1] != '-'):
                        depth += 1
                    elif pre2[j] == '<':
                        depth -= 1
                        if depth == 0:
                            break
                    j -= 1
                q = pre2[j:]
                mm = re.match(r'<\s*(\w+)', q)
                # could also be Type::<..>:: ; treat the leading identifier before '<' if any
                lead = re.search(r'(\w+)\s*(?:::)?\s*$', pre2[:j])
                t = None
                if mm and mm.group(1) == 'Self':
                    t = cur_type
                elif mm and mm.group(1) in known_types and q.startswith('<') and ' as ' in q:
                    t = mm.group(1)
                elif lead and lead.group(1) in known_types:
                    t = lead.group(1)
                elif lead and lead.group(1) == 'Self':
                    t = cur_type
                if t is not None:
                    yield (m.start(), m.end(), 'type', t, name)
            else:
                mm = re.search(r'(\w+)$', pre2)
                if not mm:
                    continue
                t = mm.group(1)
                if t == 'Self':
                    yield (m.start(), m.end(), 'type', cur_type, name)
                elif t in known_types:
                    yield (m.start(), m.end(), 'type', t, name)
        else:
            yield (m.start(), m.end(), 'free', None, name)


def maypanic_set(texts):
    infos = collect_fns(texts)
    known_types = set(fi.type for fi in infos if fi.type)
    may = set()
    for fi in infos:
        if PANIC_PRIMS.search(fi.body):
            may.add((fi.type, fi.name))
    names_any = lambda: set(n for (_, n) in may)
    changed = True
    while changed:
        changed = False
        anyn = names_any()
        for fi in infos:
            if (fi.type, fi.name) in may:
                continue
            for (_, _, kind, t, name) in classify_sites(fi.body, fi.type, known_types):
                hit = (kind == 'any' and name in anyn) or (kind == 'type' and (t, name) in may) or \
                      (kind == 'free' and (None, name) in may) or \
                      (kind == 'anyfield' and any(n2 == name and t2 != t for (t2, n2) in may))
                if hit:
                    may.add((fi.type, fi.name))
                    changed = True
                    break
    return may, known_types


def make_unwind(cfg, may_known, type_prefix='Storage'):
    may, known_types = may_known

    def unwind(text, msk, fns, fspec, log, in_dropped):
        edits = []
        anyn = set(n for (_, n) in may)
        for f in fns:
            if in_dropped(f.fn_pos) or not f.has_body or not f.mut_self:
                continue
            cur_type = type_of_key(f.block.key) if f.block is not None else None
            if cur_type is None or not cur_type.startswith(type_prefix):
                continue
            spec = fspec.fns.get(f.key)
            if spec is not None and spec.kind == 'externbody':
                continue
            if f.key in getattr(log, 'undecided', {}):
                continue
            body_m = msk[f.body_open:f.body_close + 1]
            sites = []
            for (s, e, kind, t, name) in classify_sites(body_m, cur_type, known_types):
                hit = (kind == 'any' and name in anyn) or (kind == 'type' and (t, name) in may) or \
                      (kind == 'free' and (None, name) in may) or \
                      (kind == 'anyfield' and any(n2 == name and t2 != t for (t2, n2) in may))
                if hit:
                    sites.append((s, name))
            for m in PANIC_PRIMS.finditer(body_m):
                sites.append((m.start(), strip_markers(m.group(0)).strip('.( ')))
            if not sites:
                continue
            sites.sort()
            edits.append((f.body_open + 1, 0, '\nlet ghost mut unwind_ok = true; // R-unwind\n'))
            done = set()
            for (s, name) in sites:
                pos = f.body_open + s
                st = stmt_start(text, msk, pos, f.body_open)
                arm = arm_extent(msk, st, pos, f.body_close)
                if arm is not None:
                    # the call sits in the expression of a match arm `PAT => EXPR,`: the arm becomes `PAT => { assert(..); EXPR },`
                    if ('arm', arm[0]) in done:
                        continue
                    done.add(('arm', arm[0]))
                    edits.append((arm[0], 0, ' {\nassert(unwind_ok); // UNWIND-OBLIGATION before may-panic call %s //~ C10\n' % name))
                    edits.append((arm[1], 0, ' }'))
                    log.rule('R-unwind', '%s: obligation before %s (match arm)' % (f.key, name))
                    continue
                if st in done:
                    continue
                done.add(st)
                edits.append((st, 0, 'assert(unwind_ok); // UNWIND-OBLIGATION before may-panic call %s //~ C10\n' % name))
                log.rule('R-unwind', '%s: obligation before %s' % (f.key, name))
            mut_done = set()
            for lm in re.finditer(r'[^\n]*\n', msk[f.body_open + 1:f.body_close]):
                ls = f.body_open + 1 + lm.start()
                line = lm.group(0)
                if MUT_LINE.search(line) or ASSIGN_LINE.search(line) or MUTBORROW_LINE.search(line):
                    e = stmt_end_after(msk, ls, f.body_close)
                    if e is None:
                        # mutation inside a tail expression: clear the flag before the expression (conservative)
                        p0 = ls + len(line) - len(line.lstrip())
                        s0 = stmt_start(text, msk, p0, f.body_open)
                        mm = MUT_LINE.search(line) or ASSIGN_LINE.search(line) or MUTBORROW_LINE.search(line)
                        arm = arm_extent(msk, s0, ls + mm.start(), f.body_close)
                        if arm is not None:
                            if ('arm', arm[0]) in mut_done:
                                continue
                            mut_done.add(('arm', arm[0]))
                            edits.append((arm[0], 0, ' {\nproof { unwind_ok = false; } // R-unwind (match arm)\n'))
                            edits.append((arm[1], 0, ' }'))
                            continue
                        if ('b', s0) in mut_done:
                            continue
                        mut_done.add(('b', s0))
                        edits.append((s0, 0, 'proof { unwind_ok = false; } // R-unwind (tail)\n'))
                        continue
                    if e in mut_done:
                        continue
                    mut_done.add(e)
                    edits.append((e, 0, ' proof { unwind_ok = false; } // R-unwind'))
        return edits
    return unwind


def stmt_start(text, msk, pos, body_open):
    """Start of the line on which the statement containing `pos` begins."""
    ls = rs.line_start(text, pos)
    while ls > body_open:
        prev_end = ls - 1
        pls = rs.line_start(text, prev_end)
        if pls <= body_open:
            break
        prev = msk[pls:prev_end].strip()
        if prev == '' or prev.endswith(';') or prev.endswith('{') or prev.endswith('}'):
            break
        ls = pls
    return ls


def arm_extent(msk, st, pos, limit):
    """If `pos` lies in the expression of a match arm that starts on the statement line `st` (`PAT => EXPR`), the extent
    (start, end) of EXPR: from just after `=>` to the `,` / closing brace that ends the arm; else None."""
    depth = 0
    arrow = None
    i = st
    while i < pos:
        ch = msk[i]
        if ch in rs.OPEN:
            depth += 1
        elif ch in rs.CLOSE:
            depth -= 1
            if depth < 0:
                return None
        elif depth == 0 and msk.startswith('=>', i):
            arrow = i + 2
        elif depth == 0 and ch == ';':
            arrow = None
        i += 1
    if arrow is None or depth < 0:
        return None
    # pos must be inside the arm expression at the depth of the arrow or deeper; if the expression is a block and pos is in it,
    # statements inside are handled by the ordinary rule only when they start on their own line -- wrap the whole arm otherwise
    j = arrow
    d = 0
    while j < limit:
        ch = msk[j]
        if ch in rs.OPEN:
            d += 1
        elif ch in rs.CLOSE:
            d -= 1
            if d < 0:
                return (arrow, j)
        elif ch == ',' and d == 0:
            return (arrow, j)
        j += 1
    return None


def stmt_end_after(msk, ls, limit):
    """Position just after the `;` ending the statement that contains the line starting at ls; None for a tail expression."""
    depth = 0
    i = ls
    while i < limit:
        ch = msk[i]
        if ch == ';' and depth <= 0:
            return i + 1
        if ch in rs.OPEN:
            depth += 1
        elif ch in rs.CLOSE:
            depth -= 1
            if depth < 0 and ch == '}':
                return None
        i += 1
    return None
