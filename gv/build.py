"""Assemble Verus input files from /repo's current working tree + the contract sidecar."""
import json
import os
import re
from . import rustscan as rs
from . import seqexp
from . import sidecar
from .extract import (Cfg, Log, ExtractError, add_markers, strip_markers, rule_cfg, rule_use, rule_test,
                      rule_debug_assert, rule_panic, rule_regex, rule_constassert, apply_contracts,
                      finalize, find_blocks, find_fns, PanicTable, MARK)
from .unwind import make_unwind, maypanic_set

HERE = os.path.dirname(os.path.dirname(os.path.abspath(__file__)))
CONTRACTS = os.path.join(HERE, 'contracts')
REPO = os.environ.get('GECS_REPO', '/repo')


def load_panic_table():
    return PanicTable(json.load(open(os.path.join(CONTRACTS, 'panic_table.json')))['entries'])


class GenFile:
    def __init__(self):
        self.text = ''
        self.linemap = []
        self.fns = []        # dicts: key, start_line, end_line, props, contract, external
        self.log = Log()
        self.sources = []    # repo-relative paths read
        self.cfg = None
        self.n = None
        self.unit = None
        self.path = None

    def fn_at(self, line):
        best = None
        for f in self.fns:
            if f['start_line'] <= line <= f['end_line']:
                if best is None or f['start_line'] >= best['start_line']:
                    best = f
        return best


def read_repo(rel):
    with open(os.path.join(REPO, rel)) as fh:
        return fh.read()


def common_rules(text, cfg, rel, table, log):
    text = rule_use(text, log)
    text = rule_cfg(text, cfg, log)
    text = rule_test(text, log)
    text = rule_debug_assert(text, cfg, rel, table, log)
    text = rule_panic(text, rel, table, log)
    text = rule_constassert(text, log)
    # R-numassert: compile-time constant checks (NumAssert<L, R>) are evaluated by rustc's const evaluation, not at run time
    def _drop_numassert(m, t):
        return '\n' * t[m.start():m.end()].count('\n')
    text = rule_regex(text, log, 'R-numassert', r'\bnum_assert_(?:leq|lt)!\s*\([^;]*\)\s*;', _drop_numassert)
    # R-vis: Verus requires `pub` for items whose bodies are visible to specs; single-file, so no semantic effect
    text = rule_regex(text, log, 'R-vis', r'\bpub\((?:crate|super)\)', 'pub')
    # R-phantom
    text = rule_regex(text, log, 'R-phantom', r'PhantomData<fn\(\)\s*->\s*(\w+)>', r'PhantomData<\1>')
    # R-nzmin
    text = rule_regex(text, log, 'R-nzmin', r'\bNonZeroU32::MIN\b', 'nonzero_min()')
    return text


def transform_plain(rel, fid, cfg, sc, table, log, unwind=None):
    text = add_markers(read_repo(rel), fid)
    text = common_rules(text, cfg, rel, table, log)
    fspec = sc.files.get(rel) or sidecar.FileSpec(rel)
    text, _ = apply_contracts(text, fspec, log, rel, unwind)
    return text


def transform_storage(cfg, n, table, log, sc_text_extra=None, core_texts=()):
    rel = 'src/archetype/storage.rs'
    raw = add_markers(read_repo(rel), 'storage')
    inst, binding = seqexp.instantiate(raw, 'declare_storage_n', n)
    log.rule('R-seq', 'declare_storage_n for N=%d: %s' % (n, binding))
    # companion traits instantiated from their own macros (same R-seq)
    companions = []
    for crel, fid, mac in (('src/archetype/components.rs', 'components', 'declare_components_n'),
                           ('src/archetype/slices.rs', 'slices', 'declare_slices_n'),
                           ('src/archetype/view.rs', 'view', 'declare_view_n')):
        craw = add_markers(read_repo(crel), fid)
        cinst, cb = seqexp.instantiate(craw, mac, n)
        companions.append('// ---- %s (N=%d)\n' % (crel, n) + cinst)
        log.rule('R-seq', '%s for N=%d' % (mac, n))
    # the part of the file after the macro invocations: DataPtr and helpers
    msk = rs.mask(raw)
    m = re.search(r'(?m)^pub struct DataPtr', msk)
    if not m:
        raise ExtractError('DataPtr not found in storage.rs')
    tail = raw[m.start():]
    comp_text = '\n'.join(companions)
    # R-sized: Verus needs `Self: Sized` on traits whose methods return Self (all implementors are structs)
    comp_text = rule_regex(comp_text, log, 'R-sized', r'(pub\s+trait\s+\w+\s*<[^{]*>)(\s*)\{', r'\1: Sized\2{')
    text = comp_text + '\n' + inst + '\n' + tail
    # R-drop / R-clone: `impl Drop for StorageN { fn drop(&mut self) {B} }` -> inherent `fn drop_body(&mut self) {B}`,
    # `impl Clone for StorageN { fn clone(&self) -> Self {B} }` -> inherent `fn clone_body(&self) -> Self {B}` (bodies verbatim).
    # Verus forbids `requires` on impls of external traits; for Drop the where clause of the main impl block is added
    # so that the contract can mention wf().
    tparams = ', '.join('T%d' % i for i in range(n))
    text = rule_traitfn(text, 'Drop', binding['name'], 'drop', 'drop_body', log,
                        add_where='where A::Components: %s<%s>,' % (binding['components'], tparams))
    text = rule_traitfn(text, 'Clone', binding['name'], 'clone', 'clone_body', log)
    text = rule_optmap(text, 'begin_borrow', log)
    text = rule_optmap(text, 'get_view_mut', log)
    text = common_rules(text, cfg, rel, table, log)
    # sidecar in macro notation
    sc_raw = open(os.path.join(CONTRACTS, 'storage.vsp')).read()
    if sc_text_extra:
        sc_raw += '\n' + sc_text_extra
    sc_raw = apply_sidecar_cfg(sc_raw, cfg)
    sc_inst = seqexp.instantiate_sidecar(sc_raw, binding, 'I', n)
    sc = sidecar.parse('storage.vsp', sc_inst)
    fspec = sc.files.get(rel)
    may = maypanic_set(list(core_texts) + [text])
    log.rule('R-unwind', 'may-panic functions: %s' % ', '.join(sorted('%s::%s' % (t or '', nm) for (t, nm) in may[0])))
    text, _ = apply_contracts(text, fspec, log, rel, make_unwind(cfg, may))
    return text, binding


def rule_traitfn(text, trait, type_name, old_fn, new_fn, log, add_where=None):
    msk = rs.mask(text)
    blocks = [b for b in find_blocks(text, msk) if b.kind == 'impl' and re.match(r'^%sfor%s(<|$)' % (trait, re.escape(type_name)), b.key)]
    if len(blocks) != 1:
        raise ExtractError('R-%s: expected exactly one `impl %s for %s`, found %d' % (trait.lower(), trait, type_name, len(blocks)))
    b = blocks[0]
    hdr = text[b.header_start:b.open]
    m = re.search(r'\b%s\s+for\s+' % trait, rs.mask(hdr))
    if not m:
        raise ExtractError('R-%s: header shape' % trait.lower())
    edits = [(b.header_start + m.start(), m.end() - m.start(), '')]
    if add_where:
        if re.search(r'\bwhere\b', rs.mask(hdr)):
            raise ExtractError('R-%s: impl already has a where clause' % trait.lower())
        edits.append((b.open, 0, add_where + '\n'))
    fm = re.search(r'\bfn\s+%s\b' % old_fn, msk[b.open:b.close])
    if not fm:
        raise ExtractError('R-%s: fn %s not found' % (trait.lower(), old_fn))
    edits.append((b.open + fm.start(), fm.end() - fm.start(), 'fn %s' % new_fn))
    log.rule('R-' + trait.lower(), '%s::%s -> inherent %s' % (trait, old_fn, new_fn))
    from .extract import apply_edits
    return apply_edits(text, edits)


def rule_optmap(text, fn_name, log):
    """R-optmap: in `fn_name` only, `RECV.map(|x| BODY)` as the tail expression -> `match RECV { Some(x) => Some(BODY), None => None }`.
    Verus rejects closures that capture a `&mut` borrow; for Option::map the two forms are equivalent."""
    msk = rs.mask(text)
    blocks = find_blocks(text, msk)
    hits = [f for f in find_fns(text, msk, blocks) if f.name == fn_name and f.has_body]
    if len(hits) != 1:
        raise ExtractError('R-optmap: expected exactly one fn %s, found %d' % (fn_name, len(hits)))
    f = hits[0]
    m = re.search(r'\.map\s*\(\s*\|\s*(\w+)\s*\|', msk[f.body_open:f.body_close])
    if not m:
        # the function no longer uses Option::map (e.g. it was rewritten with an explicit match): nothing to rewrite
        log.rule('R-optmap', '%s: no `.map(|x| ..)` (nothing to rewrite)' % fn_name)
        return text
    map_pos = f.body_open + m.start()
    paren = text.index('(', map_pos)
    pclose = rs.match_close(msk, paren)
    body_start = f.body_open + m.end()
    closure_body = text[body_start:pclose]
    # receiver: from the start of the statement to `.map`
    ls = rs.line_start(text, map_pos)
    recv = text[ls:map_pos]
    new = 'match %s {\nSome(%s) => Some(%s),\nNone => {\nNone\n}\n}' % (recv.strip(), m.group(1), closure_body.strip())
    log.rule('R-optmap', fn_name)
    return text[:ls] + new + text[pclose + 1:]


def rule_optmap_ident(text, fn_name, ident, log):
    """R-optmap (identifier receiver): in `fn_name`, `IDENT.map(|x| E)` -> `(match IDENT { Some(x) => Some(E), None => None })`."""
    msk = rs.mask(text)
    blocks = find_blocks(text, msk)
    hits = [f for f in find_fns(text, msk, blocks) if f.name == fn_name and f.has_body]
    if len(hits) != 1:
        raise ExtractError('R-optmap: expected exactly one fn %s, found %d' % (fn_name, len(hits)))
    f = hits[0]
    m = re.compile(r'\b%s\s*\.map\s*\(\s*\|\s*(\w+)\s*\|' % re.escape(ident)).search(msk, f.body_open, f.body_close)
    if not m:
        log.rule('R-optmap', '%s: no `%s.map(|x| ..)` (nothing to rewrite)' % (fn_name, ident))
        return text
    paren = text.index('(', m.start())
    pclose = rs.match_close(msk, paren)
    body = text[m.end():pclose]
    new = '(match %s { Some(%s) => Some(%s), None => None })' % (ident, m.group(1), body.strip())
    log.rule('R-optmap', '%s: %s.map' % (fn_name, ident))
    return text[:m.start()] + new + text[pclose + 1:]


def apply_sidecar_cfg(text, cfg):
    """Sidecar lines may be restricted to configurations with a leading `@@if <pred>` ... `@@endif` block.
    Predicates use the cfg syntax of Rust (feature = "..", debug_assertions, not/all/any)."""
    from .extract import eval_cfg_pred
    out = []
    stack = []
    for line in text.split('\n'):
        if line.startswith('@@if '):
            stack.append(eval_cfg_pred(line[5:], cfg))
            out.append('@@#')
            continue
        if line.startswith('@@else'):
            stack[-1] = not stack[-1]
            out.append('@@#')
            continue
        if line.startswith('@@endif'):
            stack.pop()
            out.append('@@#')
            continue
        if all(stack):
            out.append(line)
        else:
            out.append('@@#')
    if stack:
        raise ExtractError('unbalanced @@if in sidecar')
    return '\n'.join(out)


def load_sidecar(name, cfg):
    raw = open(os.path.join(CONTRACTS, name)).read()
    return sidecar.parse(name, apply_sidecar_cfg(raw, cfg))


def prelude(cfg):
    raw = open(os.path.join(CONTRACTS, 'prelude.rs')).read()
    raw = apply_sidecar_cfg(raw, cfg)
    return add_markers(raw, 'C:prelude.rs')


def extract_blocks(rel, fid, keys, cfg, sc, table, log):
    """Pull only the listed impl/trait blocks out of a repo file (with their leading attributes and doc comments)."""
    raw = add_markers(read_repo(rel), fid)
    msk = rs.mask(raw)
    blocks = find_blocks(raw, msk)
    out = []
    for key in keys:
        hits = [b for b in blocks if b.key == sidecar.norm_key(key)]
        if len(hits) != 1:
            raise ExtractError('R-traits: expected exactly one block %s in %s, found %d' % (key, rel, len(hits)))
        b = hits[0]
        s0 = rs.line_start(raw, b.header_start)
        out.append(raw[s0:b.close + 1])
        log.rule('R-traits', 'extracted %s from %s' % (key, rel))
    text = '\n'.join(out)
    text = common_rules(text, cfg, rel, table, log)
    fspec = sc.files.get(rel) or sidecar.FileSpec(rel)
    text, _ = apply_contracts(text, fspec, log, rel, None)
    return text


def util_macros(cfg, table, log):
    """debug_checked_assume! copied from src/util.rs (R-wrap), with debug_assert resolved for the configuration."""
    raw = add_markers(read_repo('src/util.rs'), 'util')
    msk = rs.mask(raw)
    m = re.search(r'macro_rules!\s+debug_checked_assume\s*\{', msk)
    if not m:
        raise ExtractError('debug_checked_assume! not found in src/util.rs')
    close = rs.match_close(msk, m.end() - 1)
    text = raw[m.start():close + 1]
    text = rule_debug_assert(text, cfg, 'src/util.rs', table, log)
    log.rule('R-wrap', 'debug_checked_assume! copied from src/util.rs')
    return text


# A failed obligation inside a function that has neither a sidecar contract nor a tagged clause (e.g. a function added to the
# repository after the contracts were written, or an impl checked against a ghost *SpecImpl) is attributed by source file.
FILE_DEFAULT_PROPS = {
    'entity': ['C14'], 'error': ['C14'], 'version': ['C08', 'C09'], 'slot': ['C01', 'C03'], 'index': ['C03'],
    'storage': ['C01', 'C02', 'C03'], 'traits': ['C01'], 'components': ['C02'], 'slices': ['C06'], 'view': ['C02'],
    'gworld': ['C01', 'C03', 'C14'],
    'data': ['C15'], 'pworld': ['C15'], 'pattr': ['C15'], 'pcfg': ['C15'], 'query': ['C05'], 'iter': ['C06'],
}


def sig_tags(gen, f):
    """`//~` tags written on the signature lines of a sidecar proof fn."""
    tags = []
    for ln in range(f['sig_line'], min(f.get('body_line', f['sig_line']), f['sig_line'] + 12) + 1):
        t = gen.linemap[ln - 1][1]
        o = gen.linemap[ln - 1][0]
        if t and (o is None or o.startswith('C:')) and ('requires' not in gen.text.split('\n')[ln - 1]) and ('ensures' not in gen.text.split('\n')[ln - 1]):
            tags.extend(t)
            break
    return tags


def default_props(gen, f):
    for ln in range(f['sig_line'], f['end_line'] + 1):
        o = gen.linemap[ln - 1][0]
        if o and not o.startswith('C:'):
            return list(FILE_DEFAULT_PROPS.get(o.split(':')[0], []))
    return []


def index_fns(gen):
    """Locate every fn in the final text and attach sidecar props by key."""
    msk = rs.mask(gen.text)
    blocks = find_blocks(gen.text, msk)
    fns = find_fns(gen.text, msk, blocks)
    line_of = lambda pos: gen.text.count('\n', 0, pos) + 1
    out = []
    for f in fns:
        out.append({'key': f.key, 'name': f.name, 'start_line': line_of(f.item_start), 'end_line': line_of(f.body_close),
                    'sig_line': line_of(f.fn_pos), 'body_line': line_of(f.body_open)})
    return out


def build_storage_unit(cfg, n, outdir, extra_sidecar=None, tail_text=None, unit='storage'):
    """core (index, version, slot, entity) + StorageN for one configuration."""
    gen = GenFile()
    gen.cfg, gen.n, gen.unit = cfg, n, unit
    log = gen.log
    table = load_panic_table()
    sc_core = load_sidecar('core.vsp', cfg)
    parts = [prelude(cfg).replace('//@@UTIL_MACROS@@', util_macros(cfg, table, log))]
    body = []
    stub = add_markers(open(os.path.join(CONTRACTS, 'traits_stub.rs')).read(), 'C:traits_stub.rs')
    body.append('// ======== src/traits.rs (R-traits)\n' + stub + '\n' +
                extract_blocks('src/traits.rs', 'traits', ['StorageCanResolve', 'EntityKey'], cfg, sc_core, table, log))
    gen.sources.append('src/traits.rs')
    gen.sources.append('src/util.rs')
    for rel, fid in (('src/error.rs', 'error'), ('src/index.rs', 'index'), ('src/version.rs', 'version'),
                     ('src/archetype/slot.rs', 'slot'), ('src/entity.rs', 'entity')):
        body.append('// ======== %s\n' % rel + transform_plain(rel, fid, cfg, sc_core, table, log))
        gen.sources.append(rel)
    binding = {}
    if n > 0:
        core_texts = list(body)
        st, binding = transform_storage(cfg, n, table, log, extra_sidecar, core_texts)
        body.append('// ======== src/archetype/storage.rs (N=%d)\n' % n + st)
        gen.sources.append('src/archetype/storage.rs')
    if tail_text:
        body.append(tail_text)
    full = parts[0] + '\nverus! {\n' + '\n'.join(body) + '\n} // verus!\nfn main() {}\n'
    gen.text, gen.linemap = finalize(full)
    gen.fns = index_fns(gen)
    # attach props / contract flags from sidecars
    props = {}
    for fs in sc_core.files.values():
        for k, s in fs.fns.items():
            props[k] = s
    if n > 0:
        sc_raw = apply_sidecar_cfg(open(os.path.join(CONTRACTS, 'storage.vsp')).read() + ('\n' + extra_sidecar if extra_sidecar else ''), cfg)
        sc_st = sidecar.parse('storage.vsp', seqexp.instantiate_sidecar(sc_raw, binding, 'I', n))
        for fs in sc_st.files.values():
            for k, s in fs.fns.items():
                props[k] = s
    for f in gen.fns:
        s = props.get(f['key'])
        f['props'] = list(s.props) if s else (sig_tags(gen, f) or default_props(gen, f))
        f['contract'] = bool(s)
        f['external'] = bool(s and s.kind == 'externbody')
    gen.panic_hits = dict(table.hits)
    os.makedirs(outdir, exist_ok=True)
    gen.path = os.path.join(outdir, '%s_%s_n%d.rs' % (unit, cfg.name.replace('+', '_'), n))
    with open(gen.path, 'w') as fh:
        fh.write(gen.text)
    return gen


# ---------------------------------------------------------------- macros crate unit (C15, C05)

def rule_continue(text, log):
    """R-continue: Verus' for-loops do not support `continue`.  `if C { continue; } REST` (REST = the remainder of the loop body)
    -> `if C { } else { REST }`.  Only applied when `continue;` is the sole statement of its block; anything else is an error."""
    while True:
        msk = rs.mask(text)
        m = re.search(r'\bcontinue\s*;', msk)
        if not m:
            return text
        # enclosing block of the continue
        depth = 0
        i = m.start()
        while i >= 0:
            if msk[i] == '}':
                depth += 1
            elif msk[i] == '{':
                if depth == 0:
                    break
                depth -= 1
            i -= 1
        b_open = i
        b_close = rs.match_close(msk, b_open)
        if msk[b_open + 1:b_close].strip() != msk[m.start():m.end()].strip():
            raise ExtractError('R-continue: `continue` is not the only statement of its block')
        # tail variant: if nothing but closing braces / arm commas follows on the way up to the loop body, `continue` is a no-op
        def enclosing(pos_open):
            depth = 0
            k = pos_open - 1
            while k >= 0:
                if msk[k] == '}':
                    depth += 1
                elif msk[k] == '{':
                    if depth == 0:
                        return k
                    depth -= 1
                k -= 1
            return -1

        def header_of(k_open):
            hs = max(msk.rfind(';', 0, k_open), msk.rfind('}', 0, k_open), msk.rfind('{', 0, k_open), msk.rfind(',', 0, k_open)) + 1
            return msk[hs:k_open].strip()

        cur_open, cur_close = b_open, b_close
        tail = False
        for _ in range(50):
            hdr = header_of(cur_open)
            if re.match(r"^(?:'\w+\s*:\s*)?(for|while|loop)\b", hdr):
                tail = True
                break
            par_open = enclosing(cur_open)
            if par_open < 0:
                break
            par_close = rs.match_close(msk, par_open)
            if hdr.endswith('=>'):
                # a match arm body: control continues after the whole match block
                cur_open, cur_close = par_open, par_close
                continue
            j = cur_close + 1
            while j < par_close and (msk[j].isspace() or msk[j] == ','):
                j += 1
            if j != par_close:
                break          # something follows inside the parent block
            cur_open, cur_close = par_open, par_close
        if tail:
            text = text[:m.start()] + ' ' * (m.end() - m.start()) + text[m.end():]
            log.rule('R-continue', 'tail position: dropped')
            continue
        # enclosing block of the `if`
        depth = 0
        i = b_open - 1
        while i >= 0:
            if msk[i] == '}':
                depth += 1
            elif msk[i] == '{':
                if depth == 0:
                    break
                depth -= 1
            i -= 1
        l_open = i
        l_close = rs.match_close(msk, l_open)
        inner = text[b_open + 1:b_close]
        blanked = re.sub(r'continue\s*;', '', inner)
        text = (text[:b_open + 1] + blanked + text[b_close:b_close + 1] + ' else {' + text[b_close + 1:l_close] + '}\n' + text[l_close:])
        log.rule('R-continue')



def extract_items(rel, fid, items):
    """Marked text of the listed items of a repo file, in the given order."""
    raw = add_markers(read_repo(rel), fid)
    msk = rs.mask(raw)
    blocks = find_blocks(raw, msk)
    fns = find_fns(raw, msk, blocks)
    out = []
    for kind, name in items:
        if kind in ('struct', 'enum', 'trait'):
            m = re.search(r'(?m)^[ \t]*(pub(\([a-z]+\))?\s+)?%s\s+%s\b' % (kind, re.escape(name)), msk)
            if not m:
                raise ExtractError('%s %s not found in %s' % (kind, name, rel))
            end = rs.find_depth0(msk, m.end(), '{;')
            end = rs.match_close(msk, end) + 1 if msk[end] == '{' else end + 1
            start = rs.line_start(raw, m.start())
            # leading attributes / docs
            while start > 0:
                pls = rs.line_start(raw, start - 1)
                pl = strip_markers(raw[pls:start - 1]).strip()
                if pl.startswith('#[') or pl.startswith('//'):
                    start = pls
                else:
                    break
            out.append(raw[start:end])
        elif kind == 'impl':
            hits = [b for b in blocks if b.kind == 'impl' and b.key == sidecar.norm_key(name)]
            if len(hits) != 1:
                raise ExtractError('impl %s: %d matches in %s' % (name, len(hits), rel))
            b = hits[0]
            out.append(raw[rs.line_start(raw, b.header_start):b.close + 1])
        elif kind == 'fn':
            hits = [f for f in fns if f.block is None and f.name == name and f.has_body]
            if len(hits) != 1:
                raise ExtractError('fn %s: %d matches in %s' % (name, len(hits), rel))
            f = hits[0]
            out.append(raw[f.item_start:f.body_close + 1])
        else:
            raise ExtractError('bad item kind %s' % kind)
    return '\n\n'.join(out)


MACRO_ITEMS = [
    ('macros/src/parse/attribute.rs', 'pattr', [('struct', 'ParseAttributeCfg')]),
    ('macros/src/parse/world.rs', 'pworld', [('trait', 'HasAttributeId'), ('struct', 'ParseEcsWorld'), ('struct', 'ParseArchetype'),
                                             ('struct', 'ParseComponent')]),
    ('macros/src/parse/attribute.rs', 'pattr', [('impl', 'HasAttributeId for ParseArchetype'), ('impl', 'HasAttributeId for ParseComponent')]),
    ('macros/src/parse/cfg.rs', 'pcfg', [('trait', 'HasCfgPredicates'), ('struct', 'ParseCfgDecorated')]),
    ('macros/src/parse/world.rs', 'pworld', [('impl', 'HasCfgPredicates for ParseEcsWorld')]),
    ('macros/src/parse/query.rs', 'pquery', [('struct', 'ParseQueryParam'), ('enum', 'ParseQueryParamType'), ('fn', 'get_cfg_predicates')]),
    ('macros/src/data.rs', 'data', [('struct', 'DataWorld'), ('struct', 'DataArchetype'), ('struct', 'DataComponent'),
                                    ('impl', 'DataWorld'), ('impl', 'DataArchetype'), ('fn', 'evaluate_cfgs'), ('fn', 'advance_attribute_id')]),
    ('macros/src/generate/query.rs', 'query', [('fn', 'is_cfg_enabled'), ('fn', 'bind_query_params'), ('fn', 'bind_one_of')]),
]


def check_reserved_never_constructed(log):
    """Caller assumption of bind_query_params / the emission skeletons: the parser never produces the reserved parameter variants
    Option / With / Without.  Justified syntactically on every run: no expression of macros/src constructs them (every occurrence of
    `ParseQueryParamType::Option(..)` etc. is a match pattern, i.e. is followed by `=>` or `|`)."""
    root = os.path.join(REPO, 'macros', 'src')
    for dp, _, files in os.walk(root):
        for fn in files:
            if not fn.endswith('.rs'):
                continue
            text = open(os.path.join(dp, fn)).read()
            msk = rs.mask(text)
            for m in re.finditer(r'\b(?:ParseQueryParamType|Self)\s*::\s*(Option|With|Without)\s*\(', msk):
                if m.group(0).startswith('Self') and 'ParseQueryParamType' not in text:
                    continue
                close = rs.match_close(msk, m.end() - 1)
                after = msk[close + 1:close + 40].lstrip()
                if not (after.startswith('=>') or after.startswith('|') or after.startswith('if ')):
                    raise ExtractError('A-reserved: %s constructs the reserved variant %s: the caller assumption of bind_query_params is no longer justified'
                                       % (os.path.relpath(os.path.join(dp, fn), REPO), m.group(1)))
    log.rule('A-reserved', 'no expression of macros/src constructs ParseQueryParamType::{Option, With, Without} (checked syntactically)')


def build_macros_unit(cfg, n, outdir):
    gen = GenFile()
    gen.cfg, gen.n, gen.unit = cfg, n, 'macros'
    log = gen.log
    table = load_panic_table()
    sc = load_sidecar('macros.vsp', cfg)
    check_reserved_never_constructed(log)
    stub = add_markers(open(os.path.join(CONTRACTS, 'macros_stub.rs')).read(), 'C:macros_stub.rs')
    body = []
    # one FileSpec per repo file: merge the items of the same file
    by_file = {}
    order = []
    for rel, fid, items in MACRO_ITEMS:
        if rel not in by_file:
            by_file[rel] = (fid, [])
            order.append(rel)
        by_file[rel][1].extend(items)
    for rel in order:
        fid, items = by_file[rel]
        text = extract_items(rel, fid, items)
        log.rule('R-items', '%s: %s' % (rel, ', '.join('%s %s' % it for it in items)))
        # R-derive: derives (Debug, Clone, speedy Readable/Writable) are dropped: no derived behaviour is used by the verified functions
        text = rule_regex(text, log, 'R-derive', r'(?m)^[ \t]*#\[derive\([^\]]*\)\][ \t]*', '')
        # R-syn: trait bounds on syn traits are dropped from struct headers
        text = rule_regex(text, log, 'R-syn', r'<T:\s*Parse\s*\+\s*HasCfgPredicates>', '<T>')
        # R-drain
        text = rule_regex(text, log, 'R-drain', r'(\b[\w.]+)\.drain\(\.\.\)', r'gecs_drain_all(&mut \1)')
        text = rule_cfg(text, cfg, log)
        text = rule_debug_assert(text, cfg, rel, table, log)
        text = rule_panic(text, rel, table, log)
        text = rule_regex(text, log, 'R-vis', r'\bpub\((?:crate|super)\)', 'pub')
        text = rule_continue(text, log)
        if rel == 'macros/src/generate/query.rs':
            text = rule_optmap_ident(text, 'bind_one_of', 'found', log)
        if rel == 'macros/src/parse/cfg.rs':
            from . import emit
            ztext = emit.zip_slice(add_markers(read_repo(rel), fid), log)
            ztext = rule_panic(ztext, rel, table, log)
            text += '\n// ---- R-zipslice / R-zip: the table-building tail of ParseCfgDecorated::parse\n' + ztext
        if rel == 'macros/src/generate/query.rs':
            # R-emit: the emission skeletons of the three query generators (C05)
            from . import emit
            rawq = add_markers(read_repo(rel), fid)
            text += ('\n// ---- R-emit: the parsed query restricted to the field the emission skeleton reads\n'
                     'pub struct EmitQueryData { pub params: Vec<ParseQueryParam> }\n')
            for g in ('generate_query_find', 'generate_query_iter', 'generate_query_iter_destroy'):
                _, etext = emit.emit_skeleton(rawq, g, log)
                etext = rule_continue(etext, log)
                text += '\n// ---- R-emit: emission skeleton of %s\n' % g + etext
        fspec = sc.files.get(rel) or sidecar.FileSpec(rel)
        text, _ = apply_contracts(text, fspec, log, rel, None)
        body.append('// ======== %s\n' % rel + text)
        gen.sources.append(rel)
    full = stub + '\nverus! {\n' + '\n'.join(body) + '\n} // verus!\nfn main() {}\n'
    gen.text, gen.linemap = finalize(full)
    gen.fns = index_fns(gen)
    props = {}
    for fs in sc.files.values():
        for k, s in fs.fns.items():
            props[k] = s
    for f in gen.fns:
        s = props.get(f['key'])
        f['props'] = list(s.props) if s else (sig_tags(gen, f) or default_props(gen, f))
        f['contract'] = bool(s)
        f['external'] = bool(s and s.kind == 'externbody')
    os.makedirs(outdir, exist_ok=True)
    gen.path = os.path.join(outdir, 'macros_%s.rs' % cfg.name.replace('+', '_'))
    with open(gen.path, 'w') as fh:
        fh.write(gen.text)
    return gen


# ---------------------------------------------------------------- template unit (C06, C07, C09): R-tmpl

TMPL_ARCHS = [{'type': 'ArchATag', 'name': 'ArchA', 'field': 'arch_a', 'suffix': 'a'}, {'type': 'ArchBTag', 'name': 'ArchB', 'field': 'arch_b', 'suffix': 'b'}]
# the schema query:  |entity: &Entity<_>, direct: &EntityDirect<_>, x: &mut CompX|
TMPL_PARAMS = [('EntityWild', None, False), ('EntityDirectWild', None, False), ('Component', 'comp_x', True)]


def build_templates_unit(cfg, n, outdir):
    """the query templates of macros/src/generate/query.rs instantiated for the schema, over the code ecs_world! generates for it"""
    from . import tmpl
    log = Log()
    table = load_panic_table()
    sc = load_sidecar('templates.vsp', cfg)
    ghost = add_markers(apply_sidecar_cfg(open(os.path.join(CONTRACTS, 'tmpl_ghost.rs')).read(), cfg), 'C:tmpl_ghost.rs')
    iter_rs = transform_plain('src/iter.rs', 'iter', cfg, sc, table, log)
    raw = add_markers(read_repo('macros/src/generate/query.rs'), 'query')
    harness = []
    blocks = tmpl.template_blocks(raw, 'generate_query_iter_destroy', 'iter_bind_mut', TMPL_ARCHS, TMPL_PARAMS, 'decide_destroy', log)
    harness.append('fn tmpl_iter_destroy(world: &mut WorldS, tr_a: &mut Ghost<Seq<Visit>>, tr_b: &mut Ghost<Seq<Visit>>)\n{\n'
                   + '\n'.join(blocks) + '\n}\n')
    blocks = tmpl.template_blocks(raw, 'generate_query_iter', 'iter_bind_mut', TMPL_ARCHS, TMPL_PARAMS, 'decide_iter', log)
    harness.append('fn tmpl_iter(world: &mut WorldS, tr_a: &mut Ghost<Seq<Visit>>, tr_b: &mut Ghost<Seq<Visit>>)\n{\n'
                   + '\n'.join(blocks) + '\n}\n')
    # ecs_iter! with the dynamically typed parameter kinds: |e: &EntityAny, d: &EntityDirectAny, x: &CompX|
    blocks = tmpl.template_blocks(raw, 'generate_query_iter', 'iter_bind_mut', TMPL_ARCHS,
                                  [('EntityAny', None, False), ('EntityDirectAny', None, False), ('Component', 'comp_x', False)], 'decide_iter_any', log)
    harness.append('fn tmpl_iter_any(world: &mut WorldS, tr_a: &mut Ghost<Seq<Visit>>, tr_b: &mut Ghost<Seq<Visit>>)\n{\n'
                   + '\n'.join(blocks) + '\n}\n')
    # ecs_iter_borrow! (FetchMode::Borrow) with shared parameters
    blocks = tmpl.template_blocks(raw, 'generate_query_iter', 'iter_bind_borrow', TMPL_ARCHS,
                                  [('EntityWild', None, False), ('EntityDirectWild', None, False), ('Component', 'CompX', False)],
                                  'decide_iter_borrow', log, mode='Borrow')
    harness.append('fn tmpl_iter_borrow(world: &WorldS, tr_a: &mut Ghost<Seq<Visit>>, tr_b: &mut Ghost<Seq<Visit>>)\n{\n'
                   + '\n'.join(blocks) + '\n}\n')
    blocks = tmpl.template_blocks(raw, 'generate_query_iter', 'iter_bind_borrow', TMPL_ARCHS,
                                  [('EntityWild', None, False), ('EntityDirectWild', None, False), ('Component', 'CompX', True)],
                                  'decide_iter_borrow_mut', log, mode='Borrow')
    harness.append('fn tmpl_iter_borrow_mut(world: &WorldS, tr_a: &mut Ghost<Seq<Visit>>, tr_b: &mut Ghost<Seq<Visit>>)\n{\n'
                   + '\n'.join(blocks) + '\n}\n')
    # ecs_find! (FetchMode::Mut) with a dynamically typed key, shared and direct
    from . import worldgen
    for fname, kty in (('tmpl_find_any', 'EntityAny'), ('tmpl_find_direct_any', 'EntityDirectAny'), ('tmpl_find_typed', 'Entity<ArchATag>')):
        body = tmpl.find_template(raw, worldgen.SCHEMA.name, TMPL_ARCHS, TMPL_PARAMS, 'decide_find', 'key', log)
        body = worldgen.rule_optmap_all(body, log)
        harness.append('fn %s(world: &mut WorldS, key: %s) -> Option<u8>\n{\n' % (fname, kty) + body + '\n}\n')
    # ecs_find_borrow! (FetchMode::Borrow), shared parameters, dynamically typed key
    body = tmpl.find_template(raw, worldgen.SCHEMA.name, TMPL_ARCHS,
                              [('EntityWild', None, False), ('EntityDirectWild', None, False), ('Component', 'CompX', False)],
                              'decide_find_borrow', 'key', log, mode='Borrow')
    body = worldgen.rule_optmap_all(body, log)
    harness.append('fn tmpl_find_borrow_any(world: &WorldS, key: EntityAny) -> Option<u8>\n{\n' + body + '\n}\n')
    # ecs_find_borrow! with a mutable component parameter: the RefMut guard of the entity's own cell
    body = tmpl.find_template(raw, worldgen.SCHEMA.name, TMPL_ARCHS,
                              [('EntityWild', None, False), ('EntityDirectWild', None, False), ('Component', 'CompX', True)],
                              'decide_find_borrow_mut', 'key', log, mode='Borrow')
    body = worldgen.rule_optmap_all(body, log)
    harness.append('fn tmpl_find_borrow_mut_any(world: &WorldS, key: EntityAny) -> Option<u8>\n{\n' + body + '\n}\n')
    htext = '\n'.join(harness)
    from .extract import rule_panic
    htext = rule_panic(htext, 'macros/src/generate/query.rs', table, log)
    fspec = sc.files.get('macros/src/generate/query.rs') or sidecar.FileSpec('macros/src/generate/query.rs')
    htext, _ = apply_contracts(htext, fspec, log, 'macros/src/generate/query.rs', None)
    tail = ('// ======== src/iter.rs\n' + iter_rs + '\n// ======== ghost trace record of the template harnesses\n' + ghost +
            '\n// ======== instantiated templates of macros/src/generate/query.rs (R-tmpl, R-iife)\n' + htext)
    gen = build_world_unit(cfg, outdir, extra_tail=tail, unit='templates')
    for k, v in log.rules.items():
        gen.log.rules[k] = gen.log.rules.get(k, 0) + v
    gen.log.undecided.update(log.undecided)
    gen.log.uncontracted.extend(log.uncontracted)
    gen.log.uncontracted_new.extend(log.uncontracted_new)
    gen.sources += ['src/iter.rs', 'macros/src/generate/query.rs']
    # props of the harness functions
    for f in gen.fns:
        s = fspec.fns.get(f['key'])
        if s:
            f['props'] = list(s.props)
            f['contract'] = True
    return gen


# ---------------------------------------------------------------- generated world unit (R-world, R-quote)

WORLD_SCHEMA_RS = 'world_schema.rs'


def world_sidecars(cfg, q, schema):
    """instantiate the template-notation sidecars with the locals the generator functions computed for the schema"""
    from . import quoteinst, worldgen
    sc = sidecar.Sidecar()
    sidecar.parse('worldgen_traits.vsp', apply_sidecar_cfg(open(os.path.join(CONTRACTS, 'worldgen_traits.vsp')).read(), cfg), sc)
    nocomment = lambda t: '\n'.join('@@#' if l.startswith('@@#') else l for l in t.split('\n'))
    raw = nocomment(apply_sidecar_cfg(open(os.path.join(CONTRACTS, 'worldgen_arch.vsp')).read(), cfg))
    envs = q.envs.get('section_archetype', [])
    if len(envs) != len(schema.archetypes):
        raise ExtractError('R-quote: section_archetype evaluated %d times for %d archetypes' % (len(envs), len(schema.archetypes)))
    arch_envs = []
    for env in envs:
        e = {k: v for k, v in env.items() if isinstance(v, (str, int, list)) and not isinstance(v, bool)}
        a = e['Archetype']
        e['Tag'] = worldgen.tag_of(a)
        e['I'] = list(range(len(e['Component'])))
        # per component: "all OTHER members of two components structs a, b agree" (a zip cannot express "the others")
        e['rest_same'] = [' && '.join(['true'] + ['a.%s == b.%s' % (c, c) for j, c in enumerate(e['component']) if j != i]) for i in e['I']]
        e['St'] = '%s<%s, %s>' % (e['StorageN'], e['Tag'], ','.join(e['Component']))
        e['StE'] = '%s::<%s, %s>' % (e['StorageN'], e['Tag'], ','.join(e['Component']))
        # the ids the DECLARATION asks for (from the schema, independent of what the generator computed): C15 emission check
        sa = [x for x in schema.archetypes if x.name == a]
        if len(sa) != 1:
            raise ExtractError('R-quote: section_archetype evaluated for an archetype %s that is not in the schema' % a)
        e['SchemaArchId'] = sa[0].id
        e['SchemaCompId'] = [c.id for c in sa[0].components]
        if [c.name for c in sa[0].components] != e['Component']:
            raise ExtractError('R-quote: component list of %s differs from the schema' % a)
        arch_envs.append(e)
        sidecar.parse('worldgen_arch.vsp+%s' % a, quoteinst.instantiate(raw, e), sc)
    wpath = os.path.join(CONTRACTS, 'worldgen_world.vsp')
    if os.path.exists(wpath):
        wenvs = q.envs.get('generate_world', [])
        if len(wenvs) != 1:
            raise ExtractError('R-quote: generate_world evaluated %d times' % len(wenvs))
        e = {k: v for k, v in wenvs[0].items() if isinstance(v, (str, int, list)) and not isinstance(v, bool)}
        e['Tag'] = [worldgen.tag_of(a) for a in e['Archetype']]
        by_name = {ae['Archetype']: ae for ae in arch_envs}     # section_archetype may have been evaluated in another order
        if sorted(by_name) != sorted(e['Archetype']):
            raise ExtractError('R-quote: section_archetype was evaluated for %s, the world lists %s' % (sorted(by_name), sorted(e['Archetype'])))
        e['St'] = [by_name[a]['St'] for a in e['Archetype']]
        e['StE'] = [by_name[a]['StE'] for a in e['Archetype']]
        e['J'] = list(range(len(e['Archetype'])))
        ev = q.envs.get('section_event_iter') or [{}]
        e['iter'] = list(ev[0].get('iter') or ['iter_' + a for a in e['archetype']])      # locals of section_event_iter (events feature)
        e['others_same'] = ['(' + ' && '.join(['true'] + ['post.%s == pre.%s' % (f, f) for j, f in enumerate(e['archetype']) if j != i]) + ')'
                            for i in e['J']]
        tags = e['Tag']
        pairs = ['(x.aid() == %s::ARCHETYPE_ID && y.aid() == %s::ARCHETYPE_ID)' % (tags[i], tags[j]) for i in range(len(tags)) for j in range(len(tags)) if i != j]
        e['cross_pairs'] = ' || '.join(pairs) if pairs else 'false'
        e['distinct_ids'] = ' && '.join(['true'] + ['%s::ARCHETYPE_ID != %s::ARCHETYPE_ID' % (tags[i], tags[j]) for i in range(len(tags)) for j in range(i + 1, len(tags))])
        e['data_cs'] = [', '.join('data.c%d()' % k for k in by_name[a]['I']) for a in e['Archetype']]
        for k in ('Archetype', 'archetype', 'Tag', 'St', 'StE', 'J', 'ArchetypeComponents', 'ArchetypeDirect'):
            e['All' + k] = list(e[k])
        sidecar.parse('worldgen_world.vsp', quoteinst.instantiate(nocomment(apply_sidecar_cfg(open(wpath).read(), cfg)), e), sc)
    return sc, arch_envs


def build_world_job(cfg, n, outdir):
    return build_world_unit(cfg, outdir, n=n)


def build_world_unit(cfg, outdir, extra_tail=None, unit='world', n=2):
    """storage (N = 2) + the traits of src/traits.rs + the code ecs_world! generates for the schema (gv/worldgen.py)"""
    from . import quoteinst, worldgen
    log = Log()
    table = load_panic_table()
    raw = add_markers(read_repo('macros/src/generate/world.rs'), 'gworld')
    q = quoteinst.Quoter(raw, cfg, log, 'macros/src/generate/world.rs')
    schema = worldgen.SCHEMAS[n]
    gen_text = q.eval_fn('generate_world', [schema, 'RAW'])
    sc, arch_envs = world_sidecars(cfg, q, schema)
    # documented panics of the generated code: their justification is written in template notation too
    wenv = {k: v for k, v in q.envs['generate_world'][0].items() if isinstance(v, (str, int, list)) and not isinstance(v, bool)}
    wenv['Tag'] = [worldgen.tag_of(a) for a in wenv['Archetype']]
    for e in table.entries:
        if e['file'] == 'macros/src/generate/world.rs' and e.get('allowed_when') and '#' in e['allowed_when']:
            e['allowed_when'] = quoteinst.instantiate(e['allowed_when'], wenv)
    gen_text = worldgen.adapt_generated(gen_text, log, read_repo, schema)
    gen_text = common_rules(gen_text, cfg, 'macros/src/generate/world.rs', table, log)
    fs_gen = sc.files.get('gen:world') or sidecar.FileSpec('gen:world')
    gen_text, _ = apply_contracts(gen_text, fs_gen, log, 'macros/src/generate/world.rs', None)
    tr = worldgen.traits_text(read_repo, cfg, log, common_rules, table)
    fs_tr = sc.files.get('traits:world') or sidecar.FileSpec('traits:world')
    tr, _ = apply_contracts(tr, fs_tr, log, 'src/traits.rs', None)
    comps = add_markers(apply_sidecar_cfg(open(os.path.join(CONTRACTS, WORLD_SCHEMA_RS)).read(), cfg), 'C:' + WORLD_SCHEMA_RS)
    tail = ('// ======== src/traits.rs (R-split)\n' + tr + '\n// ======== schema component types (opaque)\n' + comps +
            '\n// ======== generated by ecs_world! for the schema (R-quote, R-world)\n' + gen_text + (('\n' + extra_tail) if extra_tail else ''))
    gen = build_storage_unit(cfg, n, outdir, tail_text=tail, unit=unit)
    for k, v in log.rules.items():
        gen.log.rules[k] = gen.log.rules.get(k, 0) + v
    gen.log.notes.extend(log.notes)
    gen.log.undecided.update(log.undecided)
    gen.log.uncontracted.extend(log.uncontracted)
    gen.log.uncontracted_new.extend(log.uncontracted_new)
    gen.sources += ['macros/src/generate/world.rs']
    specs = {}
    for fs in (fs_gen, fs_tr):
        specs.update(fs.fns)
    for f in gen.fns:
        s = specs.get(f['key'])
        if s:
            f['props'] = list(s.props)
            f['contract'] = True
    gen.panic_hits.update(table.hits)
    return gen
