"""R-emit: the EMISSION SKELETON of the query generators of macros/src/generate/query.rs (C05).

`generate_query_find`, `generate_query_iter` and `generate_query_iter_destroy` all end with

    let bound_params = bind_query_params(&world_data, &query_data.params)?;
    .. token construction ..
    let mut queries = Vec::<TokenStream>::new();
    for archetype in world_data.archetypes {
        if let Some(bound_params) = bound_params.get(&archetype.name) {
            .. token construction ..
            queries.push(quote!( .. ));
        }
    }
    if queries.is_empty() { Err(..) } else { Ok(quote!( .. #(#queries)* .. )) }

Which archetypes get a block is decided by this control skeleton alone.  The rule takes the real function text from the
`let bound_params = ..` statement on and keeps exactly: that statement, `let mut queries = ..`, the `for` / `if let` headers, the
`queries.push( .. )` statement and the final `if .. else`.  Everything else must be a `let` whose right-hand side only builds
tokens; such a statement is DROPPED after a syntactic purity check (no `?`, `return`, `break`, `continue`, no mention of
`queries`, no `&mut`, no `.push(` / `.insert(` / `.remove(` / `.clear(`, no assignment) — if any other statement form or an
impure `let` appears, the rule refuses (exit 2).  `quote!( .. )` / `quote_spanned!( .. )` become the opaque `gv_tokens()`,
`syn::Error::new_spanned( .. )` becomes `gv_error()`: token CONTENT is outside the claim (the block content is verified for the
schema by R-tmpl).  The slice becomes the body of

    fn emit_<generator>(world_data: DataWorld, query_data: &EmitQueryData) -> syn::Result<TokenStream>

where `EmitQueryData { params }` stands for the parsed query restricted to the one field the slice reads.
"""
import re
from . import rustscan as rs
from .extract import ExtractError, strip_markers, find_blocks, find_fns

IMPURE = [r'\?', r'\breturn\b', r'\bbreak\b', r'\bcontinue\b', r'\bqueries\b', r'&\s*mut\b', r'\.\s*(?:push|insert|remove|clear|get_mut|drain|retain|extend|append|truncate|swap|sort\w*)\s*\(',
          r'(?<![=!<>])=(?![=>])', r'\bunsafe\b', r'\bloop\b', r'\bwhile\b']


def _tokens(text):
    """quote!/quote_spanned!( .. ) -> gv_tokens();  syn::Error::new_spanned( .. ) -> gv_error()"""
    while True:
        msk = rs.mask(text)
        m = re.search(r'\bquote(?:_spanned)?!\s*\(', msk)
        if not m:
            break
        close = rs.match_close(msk, m.end() - 1)
        seg = text[m.start():close + 1]
        text = text[:m.start()] + 'gv_tokens()' + '\n' * seg.count('\n') + text[close + 1:]
    while True:
        msk = rs.mask(text)
        m = re.search(r'\bsyn::Error::new_spanned\s*\(', msk)
        if not m:
            break
        close = rs.match_close(msk, m.end() - 1)
        seg = text[m.start():close + 1]
        text = text[:m.start()] + 'gv_error()' + '\n' * seg.count('\n') + text[close + 1:]
    return text


def _slice_block(raw, msk, start, end, log, fname, depth=0):
    """statements of raw[start:end] (inside braces) -> kept text"""
    out = []
    pos = start
    while True:
        while pos < end and msk[pos].isspace():
            pos += 1
        if pos >= end:
            break
        if msk.startswith('#[', pos):                       # attributes of a dropped/kept statement (rustfmt::skip)
            pos = rs.match_close(msk, pos + 1) + 1
            continue
        m = re.compile(r'let\s+(mut\s+)?(\w+)\s*(?::[^=;]+)?=').match(msk, pos)
        if m:
            semi = rs.find_depth0(msk, m.end(), ';', end)
            if semi < 0:
                raise ExtractError('R-emit: unterminated let in %s' % fname)
            name = m.group(2)
            stmt = raw[pos:semi + 1]
            if name in ('bound_params', 'queries') and depth == 0:
                out.append(stmt)
                log.rule('R-emit', '%s: kept `let %s`' % (fname, name))
            else:
                rhs = rs.mask(_tokens(raw[m.end():semi]))        # the content of quote!( .. ) is token text, not code
                for rx in IMPURE:
                    if re.search(rx, rhs):
                        raise ExtractError('R-emit: `let %s = ..` in %s is not a pure token construction (matches /%s/)' % (name, fname, rx))
                out.append('\n' * stmt.count('\n'))
                log.rule('R-emit', '%s: dropped pure `let %s`' % (fname, name))
            pos = semi + 1
            continue
        m = re.compile(r'(for\s+\w+\s+in\s+[\w.]+\s*|if\s+let\s+Some\s*\(\s*\w+\s*\)\s*=\s*bound_params\s*\.\s*get\s*\(\s*&\s*archetype\s*\.\s*name\s*\)\s*)\{').match(msk, pos)
        if m:
            b = m.end() - 1
            bc = rs.match_close(msk, b)
            after = msk[bc + 1:end].lstrip()
            if after.startswith('else'):
                raise ExtractError('R-emit: unexpected else after %r in %s' % (strip_markers(raw[pos:b]).strip(), fname))
            out.append(raw[pos:b + 1] + '\n' + _slice_block(raw, msk, b + 1, bc, log, fname, depth + 1) + '\n}')
            pos = bc + 1
            continue
        m = re.compile(r'queries\s*\.\s*push\s*\(').match(msk, pos)
        if m:
            close = rs.match_close(msk, m.end() - 1)
            semi = msk.index(';', close)
            out.append(_tokens(raw[pos:semi + 1]))
            log.rule('R-emit', '%s: kept queries.push' % fname)
            pos = semi + 1
            continue
        # a guard that skips or stops the emission loop is part of the skeleton: kept verbatim
        m = re.compile(r'if\s+[^{};]+\{\s*(?:continue|break)\s*;\s*\}').match(msk, pos)
        if m and depth >= 1 and not re.match(r'\s*else\b', msk[m.end():end]):
            out.append(raw[pos:m.end()])
            log.rule('R-emit', '%s: kept a continue/break guard' % fname)
            pos = m.end()
            continue
        m = re.compile(r'if\s+[^{};]*\bqueries\b[^{};]*\{').match(msk, pos)
        if m and depth == 0:
            tc = rs.match_close(msk, m.end() - 1)
            em = re.compile(r'\s*else\s*\{').match(msk, tc + 1)
            if not em:
                raise ExtractError('R-emit: final if without else in %s' % fname)
            ec = rs.match_close(msk, em.end() - 1)
            if msk[ec + 1:end].strip() != '':
                raise ExtractError('R-emit: statements after the final if/else in %s' % fname)
            out.append(_tokens(raw[pos:ec + 1]))
            log.rule('R-emit', '%s: kept the final if/else' % fname)
            pos = ec + 1
            continue
        raise ExtractError('R-emit: statement form outside the emission skeleton in %s: %r' % (fname, strip_markers(raw[pos:pos + 70])))
    return '\n'.join(out)


def emit_skeleton(raw_marked, gen_fn, log):
    msk = rs.mask(raw_marked)
    fns = [f for f in find_fns(raw_marked, msk, find_blocks(raw_marked, msk)) if f.name == gen_fn and f.has_body]
    if len(fns) != 1:
        raise ExtractError('R-emit: expected exactly one fn %s, found %d' % (gen_fn, len(fns)))
    f = fns[0]
    m = re.compile(r'let\s+bound_params\s*=\s*bind_query_params\s*\(\s*&world_data\s*,\s*&query_data\.params\s*\)\s*\?\s*;').search(msk, f.body_open, f.body_close)
    if not m:
        raise ExtractError('R-emit: `let bound_params = bind_query_params(&world_data, &query_data.params)?;` not found in %s' % gen_fn)
    # what precedes must not touch world_data.archetypes after it was decoded (only the cfg pre-pass over the parameters)
    pre = msk[f.body_open + 1:m.start()]
    if re.search(r'world_data\s*\.\s*archetypes', pre):
        raise ExtractError('R-emit: %s touches world_data.archetypes before binding' % gen_fn)
    body = _slice_block(raw_marked, msk, m.start(), f.body_close, log, gen_fn)
    name = 'emit_' + gen_fn
    text = ('pub fn %s(world_data: DataWorld, query_data: &EmitQueryData, emitted: &mut Ghost<Seq<int>>) -> syn::Result<TokenStream>\n{\n%s\n}\n' % (name, body))
    return name, text


def zip_slice(raw_marked, log):
    """R-zipslice: the tail of `ParseCfgDecorated::parse` (macros/src/parse/cfg.rs) that builds the cfg lookup table, from
    `let mut predicates = inner.collect_all_cfg_predicates();` to the end of the function, as the body of an inherent method
    `fn gv_zip(inner: T, states: Vec<bool>) -> syn::Result<Self>` (what precedes is syn ParseStream code that produces `states` and
    `inner`).  R-zip: `for (p, s) in X.drain(..).zip(Y) {` -> index loop over min(len X, len Y) binding `p = &x[i]`, `s = y[i]`
    (zip pairs the i-th elements and stops at the shorter sequence; elements are bound by reference / copy: a body that needs
    ownership of `p` would no longer compile, exit 2)."""
    msk = rs.mask(raw_marked)
    fns = [f for f in find_fns(raw_marked, msk, find_blocks(raw_marked, msk)) if f.name == 'parse' and f.has_body
           and f.block is not None and 'ParseCfgDecorated' in f.block.key]
    if len(fns) != 1:
        raise ExtractError('R-zipslice: expected exactly one ParseCfgDecorated::parse, found %d' % len(fns))
    f = fns[0]
    m = re.compile(r'let\s+mut\s+predicates\s*=\s*inner\s*\.\s*collect_all_cfg_predicates\s*\(\s*\)\s*;').search(msk, f.body_open, f.body_close)
    if not m:
        raise ExtractError('R-zipslice: `let mut predicates = inner.collect_all_cfg_predicates();` not found')
    ls = rs.line_start(raw_marked, m.start())
    tail = raw_marked[ls:f.body_close]
    tm = rs.mask(tail)
    z = re.search(r'for\s*\(\s*(\w+)\s*,\s*(\w+)\s*\)\s*in\s*(\w+)\s*\.\s*drain\s*\(\s*\.\.\s*\)\s*\.\s*zip\s*\(\s*(\w+)\s*\)\s*\{', tm)
    if not z:
        raise ExtractError('R-zip: `for (a, b) in X.drain(..).zip(Y) {` not found in the tail of ParseCfgDecorated::parse')
    p, s, x, y = z.groups()
    new = ('let gv_zx = gecs_drain_all(&mut %s); let gv_zy = %s; let gv_zn = if gv_zx.len() < gv_zy.len() { gv_zx.len() } else { gv_zy.len() };\n'
           'for gv_zi in 0..gv_zn { let %s = &gv_zx[gv_zi]; let %s = gv_zy[gv_zi];' % (x, y, p, s))
    tail = tail[:z.start()] + new + tail[z.end():]
    log.rule('R-zipslice', 'tail of ParseCfgDecorated::parse')
    log.rule('R-zip', 'for (%s, %s) in %s.drain(..).zip(%s)' % (p, s, x, y))
    return ('impl<T: HasCfgPredicates> ParseCfgDecorated<T> {\n'
            'pub fn gv_zip(inner: T, states: Vec<bool>, collected: &mut Ghost<Seq<TokenStream>>) -> syn::Result<Self>\n{\n' + tail + '\n}\n}\n')
