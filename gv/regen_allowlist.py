"""Developer tool (never run by a check): rebuild every unit of every property/tier from the UNCHANGED tree and write the set of
assumption-introducing constructs found to contracts/trusted_allowlist.json.  Review the diff before committing: each new entry is
an assumption that the evidence files will list."""
import json, os, sys, tempfile
sys.path.insert(0, os.path.dirname(os.path.dirname(os.path.abspath(__file__))))
from gv import props, runner

def main():
    out = tempfile.mkdtemp(prefix='gv_allow_')
    seen = set()
    done = set()
    unc = set()
    for p in props.CLAIMED if hasattr(props, 'CLAIMED') else ['C%02d' % i for i in range(1, 20)]:
        for tier in ('quick', 'thorough'):
            try:
                jobs = props.jobs_for(p, tier)
            except Exception as e:
                continue
            for j in jobs:
                if j.name in done:
                    continue
                done.add(j.name)
                gen = j.builder(j.cfg, j.n, out)
                seen.update(runner.scan_trusted(gen))
                unc.update(tuple(x) for x in gen.log.uncontracted)
    path = os.path.join(os.path.dirname(os.path.dirname(os.path.abspath(__file__))), 'contracts', 'trusted_allowlist.json')
    old = json.load(open(path))
    old_set = set((e['kind'], e['text']) for e in old['entries'])
    for x in sorted(seen - old_set):
        print('NEW ', x)
    for x in sorted(old_set - seen):
        print('GONE', x)
    old['entries'] = [{'kind': k, 'text': t} for k, t in sorted(seen)]
    json.dump(old, open(path, 'w'), indent=1)
    print(len(done), 'units,', len(seen), 'entries')
    bpath = os.path.join(os.path.dirname(path), 'uncontracted_baseline.json')
    oldb = set(tuple(x) for x in json.load(open(bpath))['entries']) if os.path.exists(bpath) else set()
    for x in sorted(unc - oldb):
        print('NEW uncontracted ', x)
    for x in sorted(oldb - unc):
        print('GONE uncontracted', x)
    json.dump({'_comment': 'bodied free/inherent functions of the repository text that deliberately carry no sidecar contract (their callers do not '
                           'depend on them, or a trait-level/ghost specification covers them). Any OTHER uncontracted function is a helper added since '
                           'the contracts were written: R-inline replaces its calls by its body, or failures of its callers are undecided.',
               'entries': [list(x) for x in sorted(unc)]}, open(bpath, 'w'), indent=1)
    print(len(unc), 'uncontracted baseline entries')
    import shutil; shutil.rmtree(out, ignore_errors=True)

if __name__ == '__main__':
    main()
