"""Mechanical extraction of recatek/gecs source into Verus input.

The verified text is the repository's text.  This module may only apply the
named rules of DESIGN.md section 3; every application is logged.  Anything it
cannot place raises ExtractError, which the runner turns into exit code 2
(tool could not decide) -- never into an alarm.
"""
import re
from . import rustscan as rs
from .sidecar import norm_key

MARK = re.compile(r'/\*@([A-Za-z0-9_.:\-/+]+)\*/')
TAGS = re.compile(r'//~\s*([A-Z0-9 ,]+?)\s*(?:/\*@|$)')


class ExtractError(Exception):
    pass


class Cfg:
    def __init__(self, features=(), debug=True):
        self.features = frozenset(features)
        self.debug = debug

    @property
    def name(self):
        parts = ['dbg' if self.debug else 'rel'] + sorted(f.replace('_version', '') for f in self.features)
        return '+'.join(parts)

    def __repr__(self):
        return 'Cfg(%s)' % self.name


FORCE_EXTERNAL = set()   # function keys whose hints could not be compiled: emitted as external_body (runner retry)


class Log:
    def __init__(self):
        self.rules = {}     # rule -> count
        self.notes = []
        self.undecided = {}  # fn key -> reason: the function's body could not be put under its contract (never an alarm)
        self.uncontracted = []      # (relpath, fn name) of every bodied free/inherent repo function without a sidecar contract
        self.uncontracted_new = []  # ... those not in contracts/uncontracted_baseline.json that could not be inlined (R-inline)

    def rule(self, name, detail=None):
        self.rules[name] = self.rules.get(name, 0) + 1
        if detail:
            self.notes.append('%s: %s' % (name, detail))


# ---------------------------------------------------------------- markers

def add_markers(text, fid):
    lines = text.split('\n')
    return '\n'.join('%s/*@%s:%d*/' % (l, fid, i) for i, l in enumerate(lines, 1))


def strip_markers(s):
    return MARK.sub('', s)


def mark_text(pairs):
    """pairs: [(text, origin)] from the sidecar -> marked text"""
    return '\n'.join('%s/*@%s*/' % (t, o) for t, o in pairs)


# ---------------------------------------------------------------- edits

def apply_edits(text, edits):
    """edits: list of (pos, delete_len, insert_text); applied back to front.
    Insertions at the same position keep their list order."""
    indexed = list(enumerate(edits))
    indexed.sort(key=lambda e: (e[1][0], e[0]), reverse=True)
    for _, (pos, dl, ins) in indexed:
        text = text[:pos] + ins + text[pos + dl:]
    return text


# ---------------------------------------------------------------- cfg evaluation (R-cfg)

def eval_cfg_pred(p, cfg):
    p = p.strip()
    m = re.match(r'^feature\s*=\s*"([^"]+)"$', p)
    if m:
        return m.group(1) in cfg.features
    if p == 'debug_assertions':
        return cfg.debug
    if p in ('doc', 'test', 'kani', 'miri'):
        return False
    m = re.match(r'^(not|all|any)\s*\((.*)\)$', p, re.S)
    if m:
        args = [a for a in rs.split_top_commas(m.group(2)) if a.strip()]
        vals = [eval_cfg_pred(a, cfg) for a in args]
        if m.group(1) == 'not':
            if len(vals) != 1:
                raise ExtractError('bad cfg not(): %r' % p)
            return not vals[0]
        return all(vals) if m.group(1) == 'all' else any(vals)
    raise ExtractError('R-cfg: unknown cfg predicate %r' % p)


def attributed_extent(text, msk, start):
    """Extent [start, end) of the thing an attribute ending just before `start` applies to."""
    n = len(text)
    i = start
    while True:
        while i < n and msk[i].isspace():
            i += 1
        if msk.startswith('#[', i):
            i = rs.match_close(msk, i + 1) + 1
            continue
        break
    if msk[i] == '{':
        return rs.match_close(msk, i) + 1
    # scan to , ; or a body { at depth 0
    depth = 0
    j = i
    while j < n:
        ch = msk[j]
        if depth == 0 and ch in ',;':
            return j + 1
        if depth == 0 and ch == '{':
            return rs.match_close(msk, j) + 1
        if ch in rs.OPEN:
            depth += 1
        elif ch in rs.CLOSE:
            depth -= 1
            if depth < 0:
                return j
        j += 1
    raise ExtractError('R-cfg: could not find the extent of an attributed item')


def rule_cfg(text, cfg, log):
    while True:
        msk = rs.mask(text)
        m = re.search(r'#\[cfg\(', msk)
        if not m:
            return text
        close = rs.match_close(msk, m.start() + 1)
        pred = strip_markers(text[m.end():rs.match_close(msk, m.end() - 1)])
        val = eval_cfg_pred(pred, cfg)
        if val:
            text = text[:m.start()] + text[close + 1:]
            log.rule('R-cfg', 'kept [%s]' % pred.strip())
        else:
            end = attributed_extent(text, msk, close + 1)
            removed = text[m.start():end]
            keep = ''.join(MARK.findall(removed) and [' '] or [])
            # preserve line structure: keep the newlines of the removed text
            text = text[:m.start()] + '\n' * removed.count('\n') + text[end:]
            log.rule('R-cfg', 'dropped [%s]' % pred.strip())


# ---------------------------------------------------------------- use / test items

def rule_use(text, log):
    msk = rs.mask(text)
    edits = []
    for m in re.finditer(r'(?m)^[ \t]*(pub(\([a-z]+\))?\s+)?use\s', msk):
        end = msk.find(';', m.end())
        seg = text[m.start():end + 1]
        if re.match(r'\s*use\s+super::\*\s*;', strip_markers(seg)):
            continue
        edits.append((m.start(), end + 1 - m.start(), '\n' * seg.count('\n')))
        log.rule('R-use')
    return apply_edits(text, edits)


def rule_test(text, log):
    while True:
        msk = rs.mask(text)
        m = re.search(r'#\[test\]', msk)
        if not m:
            return text
        end = attributed_extent(text, msk, m.end())
        seg = text[m.start():end]
        text = text[:m.start()] + '\n' * seg.count('\n') + text[end:]
        log.rule('R-test')


# ---------------------------------------------------------------- panics and debug assertions (R-panic, R-cfg for debug_assert)

class PanicTable:
    """Documented, intentional panics.  entries: list of dicts with
    file, fn (or '*'), kind (panic|expect|debug_assert), match (substring of the macro arguments)."""

    def __init__(self, entries):
        self.entries = entries
        self.hits = {}

    def lookup(self, relpath, fn, kind, args):
        for i, e in enumerate(self.entries):
            if e['file'] == relpath and e['kind'] == kind and (e['fn'] == '*' or e['fn'] == fn) and e['match'] in args:
                self.hits[i] = self.hits.get(i, 0) + 1
                return e
        return None


def justify(ent):
    """`assert(allowed_when)` before a documented panic: the panic may only be raised for its documented reason."""
    if not ent.get('allowed_when'):
        return ''
    return 'proof { assert(%s); /* PANIC-JUSTIFIED */ //~ %s\n } ' % (ent['allowed_when'], ' '.join(ent.get('props', [])))


def enclosing_fn_name(msk, pos):
    best = None
    for m in re.finditer(r'\bfn\s+(\w+)', msk[:pos]):
        best = m.group(1)
    return best


def stmt_end(msk, pos):
    """index just after the `;` that follows position pos (skipping spaces), else pos"""
    j = pos
    while j < len(msk) and msk[j] in ' \t':
        j += 1
    if j < len(msk) and msk[j] == ';':
        return j + 1
    return pos


def rule_debug_assert(text, cfg, relpath, table, log):
    out_edits = []
    msk = rs.mask(text)
    for m in re.finditer(r'\bdebug_assert(_eq|_ne)?!\s*\(', msk):
        close = rs.match_close(msk, m.end() - 1)
        args_marked = text[m.end():close]
        args = rs.split_top_commas(args_marked)
        clean = [strip_markers(a).strip() for a in args]
        clean = [c for c in clean if c != '']
        nl = '\n' * text[m.start():close + 1].count('\n')
        kind = m.group(1)
        if kind == '_eq':
            cond = '(%s) == (%s)' % (clean[0], clean[1])
            rest = clean[2:]
        elif kind == '_ne':
            cond = '(%s) != (%s)' % (clean[0], clean[1])
            rest = clean[2:]
        else:
            cond = clean[0]
            rest = clean[1:]
        fn = enclosing_fn_name(msk, m.start())
        end = stmt_end(msk, close + 1)
        if not cfg.debug:
            out_edits.append((m.start(), end - m.start(), nl))
            log.rule('R-cfg', 'debug_assert removed (release) in %s' % fn)
            continue
        ent = table.lookup(relpath, fn, 'debug_assert', cond + ' ' + ' '.join(rest))
        if ent is not None:
            rep = 'if !(%s) { %sgecs_panic("%s"); }' % (cond, justify(ent), ent['msg'])
            out_edits.append((m.start(), end - m.start(), rep + nl))
            log.rule('R-panic', 'debug_assert -> documented panic "%s" in %s' % (ent['msg'], fn))
        else:
            rep = 'debug_assert!(%s)' % cond
            out_edits.append((m.start(), close + 1 - m.start(), rep + nl))
            log.rule('R-dbgassert', 'obligation kept in %s' % fn)
    return apply_edits(text, out_edits)


def rule_panic(text, relpath, table, log):
    msk = rs.mask(text)
    edits = []
    for m in re.finditer(r'\bpanic!\s*\(', msk):
        close = rs.match_close(msk, m.end() - 1)
        args = strip_markers(text[m.end():close])
        fn = enclosing_fn_name(msk, m.start())
        ent = table.lookup(relpath, fn, 'panic', args)
        nl = '\n' * text[m.start():close + 1].count('\n')
        if ent is not None:
            j = justify(ent)
            rep = ('{ %sgecs_panic("%s") }' % (j, ent['msg'])) if j else 'gecs_panic("%s")' % ent['msg']
            edits.append((m.start(), close + 1 - m.start(), rep + nl))
            log.rule('R-panic', 'panic! -> documented panic "%s" in %s' % (ent['msg'], fn))
        else:
            log.rule('R-panic-kept', 'panic! kept as an unreachability obligation in %s' % fn)
    # a listed `assert!(cond)` is a deliberate consistency guard: a clean panic when it fails, no obligation (kind "assert")
    for m in re.finditer(r'(?<![\w_])assert!\s*\(', msk):
        close = rs.match_close(msk, m.end() - 1)
        args = strip_markers(text[m.end():close])
        fn = enclosing_fn_name(msk, m.start())
        ent = table.lookup(relpath, fn, 'assert', args)
        if ent is not None:
            cond = rs.split_top_commas(args)[0].strip()
            end = stmt_end(msk, close + 1)
            nl = '\n' * text[m.start():end].count('\n')
            edits.append((m.start(), end - m.start(), 'if !(%s) { %sgecs_panic("%s"); }' % (cond, justify(ent), ent['msg']) + nl))
            log.rule('R-panic', 'assert! -> documented panic "%s" in %s' % (ent['msg'], fn))
    for m in re.finditer(r'\.expect\s*\(', msk):
        close = rs.match_close(msk, m.end() - 1)
        args = strip_markers(text[m.end():close])
        fn = enclosing_fn_name(msk, m.start())
        ent = table.lookup(relpath, fn, 'expect', args)
        if ent is not None:
            edits.append((m.start(), m.end() - m.start(), '.gecs_expect('))
            log.rule('R-panic', 'expect -> documented panic "%s" in %s' % (ent['msg'], fn))
        else:
            log.rule('R-panic-kept', 'expect kept as an obligation in %s' % fn)
    return apply_edits(text, edits)


# ---------------------------------------------------------------- small rewrites

def rule_regex(text, log, name, pattern, repl, flags=0):
    msk = rs.mask(text)
    edits = []
    for m in re.finditer(pattern, msk, flags):
        new = m.expand(repl) if isinstance(repl, str) else repl(m, text)
        edits.append((m.start(), m.end() - m.start(), new))
        log.rule(name)
    return apply_edits(text, edits)


def rule_constassert(text, log):
    """const { assert!(e) };  ->  assert!(e);   (an exec assertion Verus must prove can never fire)"""
    msk = rs.mask(text)
    edits = []
    for m in re.finditer(r'\bconst\s*\{\s*assert!\s*\(', msk):
        pclose = rs.match_close(msk, m.end() - 1)
        bopen = msk.find('{', m.start())
        bclose = rs.match_close(msk, bopen)
        end = stmt_end(msk, bclose + 1)
        e = text[m.end():pclose]
        edits.append((m.start(), end - m.start(), 'assert!(%s);' % e))
        log.rule('R-constassert')
    return apply_edits(text, edits)


# ---------------------------------------------------------------- blocks / functions

class Block:
    def __init__(self, kind, key, header_start, open_pos, close_pos):
        self.kind = kind        # impl | trait | mod | other
        self.key = key
        self.header_start = header_start
        self.open = open_pos
        self.close = close_pos


def impl_key(header):
    """Normalised key of an impl/trait/mod header (text up to the `{`)."""
    h = strip_markers(header)
    h = re.sub(r'//[^\n]*', '', h)
    h = re.sub(r'#\[[^\]]*\]', '', h)
    h = h.strip()
    m = re.match(r'^(pub(\([a-z]+\))?\s+)?(unsafe\s+)?(impl|trait|mod)\b', h)
    if not m:
        return None, None
    kind = m.group(4)
    rest = h[m.end():].strip()
    if kind == 'impl' and rest.startswith('<'):
        # skip generic parameter list
        depth = 0
        for i, ch in enumerate(rest):
            if ch == '<':
                depth += 1
            elif ch == '>' and rest[i - 1] != '-':
                depth -= 1
                if depth == 0:
                    rest = rest[i + 1:]
                    break
    # cut where clause
    w = re.search(r'\bwhere\b', rest)
    if w:
        rest = rest[:w.start()]
    rest = rest.strip()
    if kind == 'trait':
        rest = re.sub(r':.*$', '', rest, flags=re.S)  # supertraits
        rest = re.sub(r'<.*$', '', rest, flags=re.S)
    if kind == 'impl' and ' for ' not in rest:
        rest = re.sub(r'<.*$', '', rest, flags=re.S)   # inherent impl: type name only
    return kind, norm_key(rest)


def find_blocks(text, msk):
    """All impl/trait/mod blocks (any nesting level)."""
    blocks = []
    for m in re.finditer(r'(?m)^[ \t]*(pub(\([a-z]+\))?\s+)?(unsafe\s+)?(impl|trait|mod)\b', msk):
        open_pos = rs.find_depth0(msk, m.end(), '{;')
        if open_pos < 0 or msk[open_pos] == ';':
            continue
        kind, key = impl_key(text[m.start():open_pos])
        if kind is None:
            continue
        blocks.append(Block(kind, key, m.start(), open_pos, rs.match_close(msk, open_pos)))
    return blocks


class Fn:
    pass


def find_fns(text, msk, blocks):
    fns = []
    for m in re.finditer(r'\bfn\s+(\w+)', msk):
        f = Fn()
        f.name = m.group(1)
        f.fn_pos = m.start()
        i = m.end()
        # generics
        while msk[i].isspace():
            i += 1
        if msk[i] == '<':
            depth = 0
            while True:
                if msk[i] == '<':
                    depth += 1
                elif msk[i] == '>' and msk[i - 1] != '-':
                    depth -= 1
                    if depth == 0:
                        i += 1
                        break
                i += 1
        while msk[i].isspace():
            i += 1
        if msk[i] != '(':
            continue  # not a function item (e.g. `fn` in a type)
        f.params_open = i
        f.params_close = rs.match_close(msk, i)
        body = rs.find_depth0(msk, f.params_close + 1, '{;')
        # braces that belong to a Verus spec clause (e.g. `ensures r is Some ==> { .. }`) are not the body
        while body >= 0 and msk[body] == '{' and re.search(r'\b(requires|ensures|decreases|recommends)\b', msk[f.params_close + 1:body]) \
                and msk[rs.line_start(msk, body):body].strip() != '':
            body = rs.find_depth0(msk, rs.match_close(msk, body) + 1, '{;')
        if body < 0:
            continue
        f.has_body = msk[body] == '{'
        f.body_open = body
        f.body_close = rs.match_close(msk, body) if f.has_body else body
        sig_tail = msk[f.params_close + 1:body]
        arrow = sig_tail.find('->')
        f.ret_span = None
        if arrow >= 0:
            rstart = f.params_close + 1 + arrow + 2
            w = re.search(r'\bwhere\b', msk[rstart:body])
            rend = rstart + w.start() if w else body
            f.ret_span = (rstart, rend)
        # enclosing block: innermost impl/trait containing fn_pos
        enc = None
        for b in blocks:
            if b.open < f.fn_pos < b.close and b.kind in ('impl', 'trait'):
                if enc is None or b.open > enc.open:
                    enc = b
        f.block = enc
        f.key = norm_key((enc.key + '::' if enc else '') + f.name)
        # item start: beginning of the attributes/doc comments preceding the fn
        ls = rs.line_start(text, f.fn_pos)
        while True:
            prev_end = ls - 1
            if prev_end <= 0:
                break
            pls = rs.line_start(text, prev_end)
            pl = strip_markers(text[pls:prev_end]).strip()
            if pl.startswith('#[') or pl.startswith('///') or pl.startswith('//'):
                ls = pls
            else:
                break
        f.item_start = ls
        params = strip_markers(text[f.params_open + 1:f.params_close])
        f.mut_self = bool(re.match(r"\s*&\s*('\w+\s+)?mut\s+self\b", params))
        fns.append(f)
    # nested fns (fn inside fn body) are ignored for contracts but still emitted as text
    return fns


def body_lines(text, f):
    """[(start, end, stripped_text)] for the lines strictly inside the body braces"""
    out = []
    pos = rs.line_end(text, f.body_open) + 1
    while pos < f.body_close:
        e = rs.line_end(text, pos)
        if e > f.body_close:
            e = f.body_close
        out.append((pos, e, strip_markers(text[pos:e])))
        pos = e + 1
    return out


def find_anchor(lines, anchor, k, fkey, origin):
    hits = [ln for ln in lines if anchor in ln[2]]
    if not hits:
        raise ExtractError('lost anchor %r in %s (sidecar %s)' % (anchor, fkey, origin))
    if k == 'last':
        return hits[-1]
    if k > len(hits):
        raise ExtractError('anchor %r occurrence %d not found in %s (sidecar %s)' % (anchor, k, fkey, origin))
    return hits[k - 1]


LOOP_RE = re.compile(r'(?m)^[ \t]*(?:\'\w+\s*:\s*)?(for\s.+?\sin\s|while\s|loop\b)')


def find_loops(text, msk, f):
    loops = []
    for m in LOOP_RE.finditer(msk, f.body_open, f.body_close):
        brace = rs.find_depth0(msk, m.end(1), '{')
        if brace < 0 or brace > f.body_close:
            continue
        loops.append((brace, m.end(1) if m.group(1).startswith('for') else None))
    return loops


def indent_of(text, pos):
    ls = rs.line_start(text, pos)
    m = re.match(r'[ \t]*', text[ls:])
    return m.group(0)


# ---------------------------------------------------------------- R-inline

_BASELINE = None


def uncontracted_baseline():
    global _BASELINE
    if _BASELINE is None:
        import json, os
        p = os.path.join(os.path.dirname(os.path.dirname(os.path.abspath(__file__))), 'contracts', 'uncontracted_baseline.json')
        _BASELINE = set(tuple(x) for x in json.load(open(p))['entries']) if os.path.exists(p) else set()
    return _BASELINE


def _is_inherent_or_free(text, msk, f):
    if f.block is None:
        return True
    if f.block.kind != 'impl':
        return False
    hdr = msk[f.block.header_start:f.block.open]
    return re.search(r'\bfor\b', hdr) is None


def rule_inline_helpers(text, fspec, log, relpath):
    """R-inline: a bodied free / inherent function of the repository text that has no contract in the sidecar and is not in
    contracts/uncontracted_baseline.json is a helper added since the contracts were written (e.g. "extract function").  Its callers
    are checked against the callee's CONTRACT, and it has none -- so the call is replaced by the callee's body, mechanically:
        f(a0, a1)   ==>   { let __gv_a0 = a0; let __gv_a1 = a1; let p0: T0 = __gv_a0; let p1: T1 = __gv_a1; BODY }
    (arguments are evaluated first, left to right, in the caller's scope; the block keeps the helper's locals from leaking); the
    helper's own definition is then removed (its body's obligations are checked at every inlined site, with the caller's facts).
    Only for helpers without `return`, `?`, recursion, generics or pattern parameters, and only at plain call sites
    (`f(..)`, `Self::f(..)`, `Type::f(..)`, `self.f(..)`).  A helper that cannot be inlined is recorded in log.uncontracted_new:
    a failed obligation in a function that calls it is reported as undecided (exit 2), never as a violation."""
    base = uncontracted_baseline()
    for _round in range(16):
        msk = rs.mask(text)
        blocks = find_blocks(text, msk)
        fns = find_fns(text, msk, blocks)
        cands = []
        for f in fns:
            if not f.has_body or not _is_inherent_or_free(text, msk, f):
                continue
            if f.key in fspec.fns or f.key in fspec.drops:
                continue
            if any(f.item_start >= g.body_open and f.body_close <= g.body_close for g in fns if g is not f and g.has_body):
                continue  # nested fn
            if MARK.search(text[rs.line_start(text, f.fn_pos):rs.line_end(text, f.fn_pos)]) is None:
                continue  # not repository text
            if _round == 0:
                log.uncontracted.append((relpath, f.name))
            if (relpath, f.name) in base:
                continue
            cands.append(f)
        if not cands:
            return text
        f = cands[0]
        why = None
        body_m = msk[f.body_open + 1:f.body_close]
        sig_m = msk[f.fn_pos:f.params_open]
        params_t = strip_markers(text[f.params_open + 1:f.params_close])
        if re.search(r'\breturn\b', body_m) or '?' in body_m:
            why = 'body uses return / ?'
        elif re.search(r'\b%s\b' % re.escape(f.name), body_m):
            why = 'recursive'
        elif '<' in sig_m:
            why = 'generic'
        params = [p.strip() for p in rs.split_top_commas(params_t) if p.strip()]
        has_self = bool(params) and re.match(r"^(&\s*('\w+\s+)?(mut\s+)?)?(mut\s+)?self$", params[0]) is not None
        plain = params[1:] if has_self else params
        pinfo = []
        for p_ in plain:
            pm = re.match(r'^(mut\s+)?(\w+)\s*:\s*(.+)$', p_, re.S)
            if not pm or pm.group(2) == '_':
                why = why or 'pattern parameter'
                break
            pinfo.append((pm.group(1) or '', pm.group(2), pm.group(3).strip()))
        if has_self and re.search(r'\bself\b', params[0]) and not params[0].strip().startswith('&') and params[0].strip() != 'self':
            why = why or 'self by mut value'
        # call sites
        sites = []
        if why is None:
            for m in re.finditer(r'\b%s\s*\(' % re.escape(f.name), msk):
                if f.fn_pos <= m.start() <= f.body_close:
                    continue
                if re.search(r'\bfn\s+$', msk[max(0, m.start() - 8):m.start()]):
                    continue
                opn = m.end() - 1
                cls = rs.match_close(msk, opn)
                pre = msk[:m.start()]
                pm = re.search(r'((?:\bSelf|\b[A-Z]\w*)\s*::\s*|\bself\s*\.\s*)$', pre)
                start = m.start()
                recv_self = False
                if pm:
                    start = pm.start()
                    recv_self = pm.group(1).strip().startswith('self')
                elif re.search(r'(\.|::)\s*$', pre):
                    why = 'call through a receiver/path that is not self/Self/Type'
                    break
                if recv_self != has_self:
                    why = 'receiver form does not match the signature'
                    break
                args = [a for a in rs.split_top_commas(text[opn + 1:cls]) if strip_markers(a).strip()]
                if len(args) != len(pinfo):
                    why = 'argument count'
                    break
                sites.append((start, cls + 1, args))
            # any other mention (function value, path) blocks the rule
            n_mentions = len([1 for m in re.finditer(r'\b%s\b' % re.escape(f.name), msk) if not (f.fn_pos <= m.start() <= f.body_close)])
            if why is None and n_mentions != len(sites):
                why = 'mentioned other than in a plain call'
        if why is not None or not sites:
            if why is not None:
                log.uncontracted_new.append(f.name)
                log.rule('R-inline', '%s: NOT inlined (%s)' % (f.key, why))
                base = base | {(relpath, f.name)}
                continue
            base = base | {(relpath, f.name)}   # never called in this unit: nothing to do
            continue
        body_t = text[f.body_open + 1:f.body_close]
        is_unsafe = re.search(r'\bunsafe\s+$', msk[max(0, f.fn_pos - 12):f.fn_pos]) is not None
        edits = []
        for (st, en, args) in sites:
            pre = ''.join('let __gv_a%d = %s; ' % (i, strip_markers(a).strip()) for i, a in enumerate(args))
            pre += ''.join('let %s%s: %s = __gv_a%d; ' % (mu, nm, ty, i) for i, (mu, nm, ty) in enumerate(pinfo))
            rep = '{ ' + pre + body_t + ' }'
            edits.append((st, en - st, rep))
        # the definition itself goes: every use has been replaced, and verified on its own (without the facts its callers establish)
        # the obligations inside its body would be undecidable -- they are checked at each inlined site instead
        seg = text[f.item_start:f.body_close + 1]
        edits.append((f.item_start, f.body_close + 1 - f.item_start, '\n' * seg.count('\n')))
        text = apply_edits(text, edits)
        log.rule('R-inline', '%s: %d call site(s) replaced by the body%s; definition removed' % (f.key, len(sites), ' (unsafe fn)' if is_unsafe else ''))
        base = base | {(relpath, f.name)}
    return text



def apply_contracts(text, fspec, log, relpath, unwind=None):
    """Insert sidecar contracts into `text` (already rewritten by the other rules)."""
    text = rule_inline_helpers(text, fspec, log, relpath)
    msk = rs.mask(text)
    blocks = find_blocks(text, msk)
    fns = find_fns(text, msk, blocks)
    edits = []
    fn_index = []

    # drops (named)
    dropped_ranges = []
    for key, reason in fspec.drops.items():
        done = False
        for b in blocks:
            if b.key == key:
                dropped_ranges.append((rs.line_start(text, b.header_start), b.close + 1, key, reason))
                done = True
        for f in fns:
            if f.key == key:
                dropped_ranges.append((f.item_start, f.body_close + 1, key, reason))
                done = True
        if not done:
            raise ExtractError('drop rule for %s (%s) matched nothing in %s' % (key, reason, relpath))
    for rx, reason in fspec.dropre:
        m = re.search(rx, msk, re.M)
        if not m:
            raise ExtractError('dropre %r matched nothing in %s' % (rx, relpath))
        end = attributed_extent(text, msk, m.start())
        dropped_ranges.append((rs.line_start(text, m.start()), end, rx, reason))
    for (s, e, key, reason) in dropped_ranges:
        seg = text[s:e]
        edits.append((s, e - s, '\n' * seg.count('\n')))
        log.rule('R-dropitem', '%s: %s' % (key, reason))

    def in_dropped(pos):
        return any(s <= pos < e for (s, e, _, _) in dropped_ranges)

    for rx, attr in fspec.attrs:
        m = re.search(rx, msk, re.M)
        if not m:
            raise ExtractError('attr anchor %r matched nothing in %s' % (rx, relpath))
        ls = rs.line_start(text, m.start())
        edits.append((ls, 0, indent_of(text, m.start()) + attr + '\n'))
        log.rule('R-attr', attr)

    for rx, pairs in fspec.ghost_before:
        m = re.search(rx, msk, re.M)
        if not m:
            raise ExtractError('ghost before-item anchor %r matched nothing in %s' % (rx, relpath))
        ls = rs.line_start(text, m.start())
        edits.append((ls, 0, mark_text(pairs) + '\n'))
        log.rule('R-contract', 'ghost before %s' % rx)

    for key, chunks in fspec.ghost_impl.items():
        targets = [b for b in blocks if b.key == key and not in_dropped(b.open)]
        if not targets:
            raise ExtractError('ghost impl target %s not found in %s' % (key, relpath))
        b = targets[0]
        for pairs in chunks:
            edits.append((b.open + 1, 0, '\n' + mark_text(pairs) + '\n'))
            log.rule('R-contract', 'ghost items in impl %s' % key)

    seen = {}
    for f in fns:
        if in_dropped(f.fn_pos):
            continue
        seen[f.key] = seen.get(f.key, 0) + 1
        spec = fspec.fns.get(f.key)
        entry = {'key': f.key, 'name': f.name, 'start': f.item_start, 'end': f.body_close,
                 'props': spec.props if spec else [], 'contract': bool(spec), 'maypanic': bool(spec and spec.maypanic),
                 'mut_self': f.mut_self, 'has_body': f.has_body}
        fn_index.append(entry)
        if spec is None:
            continue
        spec.used = True
        if spec.kind == 'externbody':
            # keep the signature, drop the body (R-dataptr)
            if not f.has_body:
                raise ExtractError('externbody on bodiless fn %s' % f.key)
            ind = indent_of(text, f.fn_pos)
            edits.append((rs.line_start(text, f.fn_pos), 0, ind + '#[verifier::external_body]\n'))
            body = text[f.body_open:f.body_close + 1]
            edits.append((f.body_open, f.body_close + 1 - f.body_open,
                          mark_text(spec.spec) + '\n' + ind + '{ unimplemented!() }' + '\n' * body.count('\n')))
            if spec.ret and f.ret_span:
                rtxt = text[f.ret_span[0]:f.ret_span[1]]
                edits.append((f.ret_span[0], f.ret_span[1] - f.ret_span[0], ' (%s: %s) ' % (spec.ret, rtxt.strip())))
            log.rule('R-dataptr', '%s: body dropped, contract assumed' % f.key)
            entry['external'] = True
            continue
        fedits = []
        try:
            if f.key in FORCE_EXTERNAL:
                raise ExtractError('proof hints of %s do not compile against the current body' % f.key)
            if spec.ret:
                if f.ret_span is None:
                    raise ExtractError('contract names a return value for %s but it returns nothing' % f.key)
                rtxt = text[f.ret_span[0]:f.ret_span[1]]
                fedits.append((f.ret_span[0], f.ret_span[1] - f.ret_span[0], ' (%s: %s) ' % (spec.ret, rtxt.strip())))
            if spec.spec:
                fedits.append((f.body_open, 0, '\n' + mark_text(spec.spec) + '\n' + indent_of(text, f.fn_pos)))
            if f.has_body:
                if spec.start:
                    fedits.append((f.body_open + 1, 0, '\n' + mark_text(spec.start) + '\n'))
                lines = body_lines(text, f)
                for (mode, anchor, k, pairs, origin) in spec.inserts:
                    if mode == 'end':
                        code = [ln for ln in lines if rs.mask(ln[2]).strip() not in ('', '}', '};', '})', '});')]
                        if not code:
                            raise ExtractError('@@end: empty body in %s' % f.key)
                        fedits.append((code[-1][0], 0, mark_text(pairs) + '\n'))
                        continue
                    ln = find_anchor(lines, anchor, k, f.key, origin)
                    if mode == 'after':
                        fedits.append((ln[1], 0, '\n' + mark_text(pairs)))
                    else:
                        fedits.append((ln[0], 0, mark_text(pairs) + '\n'))
                if spec.closures:
                    cl = [m for m in re.finditer(r'\|\s*(\w+)\s*\|', msk[f.body_open:f.body_close]) if not msk[f.body_open + m.start() - 1:f.body_open + m.start()] == '|']
                    for k, pairs in spec.closures.items():
                        if k > len(cl):
                            raise ExtractError('closure %d not found in %s' % (k, f.key))
                        cm = cl[k - 1]
                        cs = f.body_open + cm.start()
                        ce = f.body_open + cm.end()
                        # extent of the closure body: `unsafe { .. }` or `{ .. }`
                        j = ce
                        while msk[j].isspace():
                            j += 1
                        bm = re.match(r'(unsafe\s*)?\{', msk[j:])
                        if not bm:
                            raise ExtractError('closure %d of %s: body is not a block' % (k, f.key))
                        bopen = j + bm.end() - 1
                        bclose = rs.match_close(msk, bopen)
                        params = pairs[0][0].strip()
                        rest = mark_text(pairs[1:])
                        fedits.append((cs, ce - cs, '|%s| %s\n{ ' % (params, rest)))
                        fedits.append((bclose + 1, 0, ' }'))
                        log.rule('R-contract', '%s: closure %d annotated' % (f.key, k))
                for (var, ty) in spec.lettypes:
                    lm = re.search(r'\blet\s+(?:mut\s+)?%s\s*(?==[^=])' % re.escape(var), msk[f.body_open:f.body_close])
                    if not lm:
                        raise ExtractError('lettype: `let %s =` not found in %s' % (var, f.key))
                    fedits.append((f.body_open + lm.end(), 0, ': %s ' % ty))
                    log.rule('R-lettype', '%s: %s' % (f.key, var))
                if spec.loops:
                    loops = find_loops(text, msk, f)
                    for k, pairs in spec.loops.items():
                        if k > len(loops):
                            raise ExtractError('loop %d not found in %s (has %d loops)' % (k, f.key, len(loops)))
                        brace, in_end = loops[k - 1]
                        fedits.append((brace, 0, '\n' + mark_text(pairs) + '\n' + indent_of(text, brace)))
                        if k in spec.loopnames:
                            if in_end is None:
                                raise ExtractError('loop %d of %s is not a for loop: cannot name its iterator' % (k, f.key))
                            fedits.append((in_end, 0, '%s: ' % spec.loopnames[k]))

        except ExtractError as e:
            if not f.has_body or not spec.spec:
                raise
            # containment: this function cannot be decided; keep its contract as an assumption so that the rest of the unit
            # is still checked; every property it serves reports "undecided" (exit 2), never an alarm
            log.undecided[f.key] = str(e)
            ind = indent_of(text, f.fn_pos)
            fedits = [(rs.line_start(text, f.fn_pos), 0, ind + '#[verifier::external_body] // UNDECIDED-FN\n')]
            body = text[f.body_open:f.body_close + 1]
            fedits.append((f.body_open, f.body_close + 1 - f.body_open,
                           '\n' + mark_text(spec.spec) + '\n' + ind + '{ unimplemented!() }' + '\n' * body.count('\n')))
            if spec.ret and f.ret_span:
                rtxt = text[f.ret_span[0]:f.ret_span[1]]
                fedits.append((f.ret_span[0], f.ret_span[1] - f.ret_span[0], ' (%s: %s) ' % (spec.ret, rtxt.strip())))
            entry['external'] = True
            entry['undecided'] = str(e)
        edits.extend(fedits)
        if f.has_body:
            pass
        elif spec.start or spec.inserts or spec.loops:
            raise ExtractError('body hints for bodiless fn %s' % f.key)
        log.rule('R-contract', f.key)

    for key, spec in fspec.fns.items():
        if spec.kind == 'const':
            m = re.search(r'(?m)^[ \t]*((?:pub(?:\([a-z]+\))?\s+)?)const\s+%s\s*:\s*([^=]+?)\s*=\s*' % re.escape(key), msk)
            if not m:
                raise ExtractError('const %s not found in %s' % (key, relpath))
            semi = rs.find_depth0(msk, m.end(), ';')
            expr = text[m.end():semi]
            new = '%sexec const %s: %s\n%s\n{\n%s\n%s }' % (
                m.group(1), key, m.group(2), mark_text(spec.spec), mark_text(spec.start), expr)
            edits.append((m.start(), semi + 1 - m.start(), new))
            spec.used = True
            log.rule('R-const', key)
    unused = [k for k, s in fspec.fns.items() if not s.used]
    if unused:
        raise ExtractError('contracts for functions that no longer exist in %s: %s' % (relpath, ', '.join(unused)))

    # R-unwind (C10)
    if unwind is not None:
        edits.extend(unwind(text, msk, fns, fspec, log, in_dropped))

    text = apply_edits(text, edits)
    ghost_top = '\n'.join(mark_text(p) for p in fspec.ghost_top)
    if ghost_top:
        text = text + '\n' + ghost_top + '\n'
    return text, fn_index


# ---------------------------------------------------------------- final pass

def finalize(text):
    """Strip markers; return (clean_text, linemap) where linemap[i] = (origin or None, tags) for line i+1."""
    out = []
    linemap = []
    for line in text.split('\n'):
        marks = MARK.findall(line)
        clean = MARK.sub('', line)
        tags = []
        t = re.search(r'//~\s*([A-Z0-9 ,]+)\s*$', clean)
        if t:
            tags = re.findall(r'C\d+', t.group(1))
        origin = None
        for mk in marks:
            if not mk.startswith('C:'):
                origin = mk
                break
        if origin is None and marks:
            origin = marks[0]
        out.append(clean.rstrip())
        linemap.append((origin, tags))
    return '\n'.join(out), linemap
