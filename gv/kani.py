"""Kani layer: bounded (or loop-free full-domain) harnesses for the code Verus cannot read.

The harness texts live in /verif/kani; they are appended to / copied into a scratch copy of /repo's CURRENT working tree
(never /repo itself), built with `cargo kani` offline, and the scratch copy is removed afterwards.  The build cache
(CARGO_TARGET_DIR) is kept under /verif/gen/kani_target to avoid recompiling syn & co on every run; it is rebuilt when absent.
"""
import json
import os
import re
import shutil
import subprocess
import tempfile
import time

HERE = os.path.dirname(os.path.dirname(os.path.abspath(__file__)))
KANI_DIR = os.path.join(HERE, 'kani')
REPO = os.environ.get('GECS_REPO', '/repo')


def registry():
    return json.load(open(os.path.join(KANI_DIR, 'harnesses.json')))


def harnesses_for(prop, tier):
    out = []
    for h in registry()['harnesses']:
        if prop in h['props'] and (tier == 'thorough' or h.get('quick')):
            out.append(h)
    return out


def playback(scratch, env, h, feats, is_tests):
    base = ['cargo', 'kani', '--output-format', 'terse']
    if feats:
        base += ['--features', feats]
    if is_tests:
        base.append('--tests')
    cmd = base + ['--harness', h['name'], '-Z', 'concrete-playback', '--concrete-playback=inplace']
    # kani-driver needs minutes to turn a long trace into a playback test (observed: 5-7 min for harnesses with several loops, CBMC
    # already exited); the replay only happens after a FAILED verdict, so a generous cap costs nothing on a tree where the property holds
    p = subprocess.run(cmd, cwd=scratch, env=env, stdout=subprocess.PIPE, stderr=subprocess.STDOUT, timeout=900)
    out = p.stdout.decode('utf-8', 'replace')
    test = None
    vals = None
    for root, _, files in os.walk(scratch):
        if '/target' in root:
            continue
        for fn in files:
            if not fn.endswith('.rs'):
                continue
            txt = open(os.path.join(root, fn)).read()
            m = re.search(r'fn (kani_concrete_playback_%s_\d+)\s*\(\)\s*\{(.*?)\n\s*kani::concrete_playback_run' % re.escape(h['name']), txt, re.S)
            if m:
                test = m.group(1)
                vals = re.sub(r'\s+', ' ', m.group(2)).strip()[:1500]
    if not test:
        return {'available': False, 'note': 'Kani produced no concrete playback test for this failure', 'kani_output_tail': out[-600:]}
    cmd2 = ['cargo', 'kani', 'playback', '-Z', 'concrete-playback']
    if feats:
        cmd2 += ['--features', feats]
    cmd2 += ['--', test]
    p2 = subprocess.run(cmd2, cwd=scratch, env=env, stdout=subprocess.PIPE, stderr=subprocess.STDOUT, timeout=1500)
    out2 = p2.stdout.decode('utf-8', 'replace')
    failed_natively = bool(re.search(r'test result: FAILED', out2)) or (p2.returncode != 0 and test in out2)
    msg = re.findall(r'panicked at [^\n]*\n[^\n]*', out2)
    return {'available': True, 'test': test, 'concrete_values': vals, 'playback_cmd': ' '.join(cmd2),
            'replayed_against_real_code': True, 'fails_natively': failed_natively,
            'native_failure': (msg[0][:400] if msg else out2[-400:])}


def run(harnesses, timeout_each=1500):
    """Returns a list of result dicts, one per harness."""
    if not harnesses:
        return []
    reg = registry()
    t0 = time.time()
    scratch = tempfile.mkdtemp(prefix='gv_kani_')
    results = []
    lock_fh = None
    try:
        for item in ('src', 'macros', 'Cargo.toml', 'Cargo.lock', 'README.md'):
            s = os.path.join(REPO, item)
            d = os.path.join(scratch, item)
            if os.path.isdir(s):
                shutil.copytree(s, d, ignore=shutil.ignore_patterns('target'))
            elif os.path.exists(s):
                shutil.copy(s, d)
        os.makedirs(os.path.join(scratch, 'tests'), exist_ok=True)
        # cargo decides freshness by comparing source mtimes with the cached artifact, and the artifact hash does not depend on the
        # (random) scratch path: a copy that preserves old mtimes would silently reuse the artifact of an EARLIER, DIFFERENT tree
        # (observed: a clean run after a run on a modified copy reused the modified proc-macro: a false alarm).  Every copied file
        # gets mtime = now, so the repository's own crates are always rebuilt from the text that was just copied; only the registry
        # dependencies (syn, ..) stay cached.
        now = time.time()
        for root, _, files in os.walk(scratch):
            for fn in files:
                try:
                    os.utime(os.path.join(root, fn), (now, now))
                except OSError:
                    pass
        # appended harness modules: the original text of each target is kept so that, when the library no longer builds with ALL
        # harness modules appended (a harness that names a renamed private field, say), the modules can be retried one file at a time
        # and only the harnesses of the file that does not compile are undecided
        orig_text = {}
        append_files = [f for f in reg['files'] if f['mode'] == 'append']

        def write_appends(active):
            for tgt in set(f['target'] for f in append_files):
                if tgt not in orig_text:
                    orig_text[tgt] = open(os.path.join(scratch, tgt)).read()
                text = orig_text[tgt]
                for f in append_files:
                    if f['target'] == tgt and f['harness_file'] in active:
                        text += '\n' + open(os.path.join(KANI_DIR, f['harness_file'])).read()
                with open(os.path.join(scratch, tgt), 'w') as fh:
                    fh.write(text)

        write_appends(set(f['harness_file'] for f in append_files))
        for f in reg['files']:
            if f['mode'] != 'append':
                with open(os.path.join(scratch, f['target']), 'w') as fh:
                    fh.write(open(os.path.join(KANI_DIR, f['harness_file'])).read())
        target_dir = os.environ.get('GV_KANI_TARGET', os.path.join(HERE, 'gen', 'kani_target'))
        os.makedirs(target_dir, exist_ok=True)
        env = dict(os.environ, CARGO_NET_OFFLINE='true', CARGO_TARGET_DIR=target_dir)
        # The artifact names under the shared target directory do not depend on the scratch path, and kani-driver works on them
        # after cargo has released its own build lock: two checks running at the same time would read each other's goto binaries
        # (observed: "goto-cc: Out of memory" on a half-written file; a mixed-up tree would be worse).  The whole Kani phase of a
        # check therefore holds an exclusive lock on the target directory; the lock dies with the process.
        import fcntl
        lock_fh = open(os.path.join(target_dir, '.gv_lock'), 'w')
        fcntl.flock(lock_fh, fcntl.LOCK_EX)
        # mtimes again, now that we own the target directory: sources must be newer than anything a previous holder built
        now = time.time()
        for root, _, files in os.walk(scratch):
            for fn in files:
                try:
                    os.utime(os.path.join(root, fn), (now, now))
                except OSError:
                    pass
        groups = {}
        for h in harnesses:
            groups.setdefault((h.get('tests', False), h.get('features', '')), []).append(h)
        # which copied test file defines which harness (a compile error in one test file must not take the others down)
        file_of = {}
        append_of = {}      # harness name -> appended harness file that defines it (directly or through a macro invocation naming it)
        for f in reg['files']:
            txt = open(os.path.join(KANI_DIR, f['harness_file'])).read()
            for h in harnesses:
                if re.search(r'\bfn\s+%s\s*\(' % re.escape(h['name']), txt) or re.search(r'!\(\s*%s\s*,' % re.escape(h['name']), txt):
                    if f['mode'] != 'append':
                        file_of[h['name']] = f['target']
                    else:
                        append_of[h['name']] = f['harness_file']
        work = list(groups.items())
        retried = set()
        while work:
            (is_tests, feats), hs = work.pop(0)
            only_file = None
            only_append = None
            if isinstance(is_tests, tuple):          # retry of one test file: (True, target) / of one appended module: (False, harness_file)
                if is_tests[0]:
                    is_tests, only_file = is_tests
                else:
                    is_tests, only_append = is_tests
            # library harnesses see only their own appended module on a retry; test harnesses always build against the plain library
            # plus all modules (they do not depend on them)
            write_appends(set([only_append]) if only_append else set(f['harness_file'] for f in append_files))
            if only_append:
                now = time.time()
                for tgt in set(f['target'] for f in append_files):
                    os.utime(os.path.join(scratch, tgt), (now, now))
            hidden = []
            if only_file:
                for f in reg['files']:
                    if f['mode'] != 'append' and f['target'] != only_file and os.path.exists(os.path.join(scratch, f['target'])):
                        os.rename(os.path.join(scratch, f['target']), os.path.join(scratch, f['target'] + '.hidden'))
                        hidden.append(f['target'])
            cmd = ['cargo', 'kani', '--output-format', 'terse']
            if len(hs) > 1:
                cmd += ['-j', str(min(len(hs), int(os.environ.get('GV_KANI_JOBS', '4'))))]
            if feats:
                cmd += ['--features', feats]
            if is_tests:
                cmd.append('--tests')
            for h in hs:
                cmd += ['--harness', h['name']]
            try:
                p = subprocess.run(cmd, cwd=scratch, env=env, stdout=subprocess.PIPE, stderr=subprocess.STDOUT,
                                   timeout=timeout_each * max(1, len(hs)))
                out = p.stdout.decode('utf-8', 'replace')
            except subprocess.TimeoutExpired as e:
                out = (e.stdout or b'').decode('utf-8', 'replace') + '\nTIMEOUT'
            # parallel runs (-j) prefix lines with "Thread N:"; the result block that follows "Thread N: " belongs to the harness
            # that thread announced last
            cur = {}
            pending = None
            seen = {}
            failed_names = set(x.split('::')[-1] for x in re.findall(r'Verification failed for - (\S+)', out))
            complete = re.search(r'Complete - (\d+) successfully verified harnesses, (\d+) failures, (\d+) total', out)
            for line in out.split('\n'):
                m = re.match(r'^(?:Thread (\d+): )?Checking harness (\S+?)\.\.\.', line)
                if m:
                    t = m.group(1) or '0'
                    short = m.group(2).split('::')[-1]
                    cur[t] = short
                    seen[short] = {'status': 'UNKNOWN', 'time_s': None, 'failed_checks': [], 'output_tail': ''}
                    pending = t
                    continue
                m = re.match(r'^Thread (\d+): \s*$', line)
                if m:
                    pending = m.group(1)
                    continue
                name = cur.get(pending)
                if name is None:
                    continue
                m = re.match(r'^VERIFICATION:- (\w+)', line)
                if m:
                    seen[name]['status'] = m.group(1)
                m = re.match(r'^Verification Time: ([\d.]+)s', line)
                if m:
                    seen[name]['time_s'] = float(m.group(1))
                m = re.match(r'^Failed Checks: (.*)', line)
                if m and len(seen[name]['failed_checks']) < 10:
                    seen[name]['failed_checks'].append(m.group(1))
            for nm, r in seen.items():
                if nm in failed_names:
                    r['status'] = 'FAILED'
                # a harness whose ONLY failed checks are unwinding assertions ran out of its loop bound (a harmless change that adds an
                # iteration does that): the bound is too small to decide, which is a tool limit (exit 2), never a violation
                fcs = r['failed_checks']
                if r['status'] == 'FAILED' and fcs and len(fcs) < 10 and all('unwinding assertion' in fc for fc in fcs):
                    r['status'] = 'UNWIND-BOUND-TOO-SMALL'
                if r['status'] == 'FAILED':
                    r['output_tail'] = out[-2500:]
                if r['status'] == 'UNKNOWN' and complete and nm not in failed_names:
                    r['status'] = 'SUCCESSFUL'
            # counterexample: for a FAILED harness ask Kani for a concrete playback test, insert it into the scratch copy and run it
            # NATIVELY against the real code (cargo kani playback); at most two harnesses per run
            for h in [x for x in hs if seen.get(x['name'], {}).get('status') == 'FAILED'][:2]:
                try:
                    seen[h['name']]['counterexample'] = playback(scratch, env, h, feats, is_tests)
                except Exception as e:   # never let the replay step change the verdict
                    seen[h['name']]['counterexample'] = {'error': repr(e)}
            for t in hidden:
                os.rename(os.path.join(scratch, t + '.hidden'), os.path.join(scratch, t))
            # the build failed for the whole invocation: retry the test files one by one, so that a harness file that no longer
            # compiles against the modified library (undecided) does not hide the verdict of the others
            built = bool(seen) or bool(re.search(r'Checking harness', out))
            files_here = sorted(set(file_of.get(h['name']) for h in hs if file_of.get(h['name'])))
            if is_tests and not built and only_file is None and len(files_here) > 1 and (feats, tuple(files_here)) not in retried:
                retried.add((feats, tuple(files_here)))
                for tf in files_here:
                    work.append((((True, tf), feats), [h for h in hs if file_of.get(h['name']) == tf]))
                continue
            mods_here = sorted(set(append_of.get(h['name']) for h in hs if append_of.get(h['name'])))
            if (not is_tests) and not built and only_append is None and len(append_files) > 1 and (feats, tuple(mods_here)) not in retried:
                retried.add((feats, tuple(mods_here)))
                for mf in mods_here:
                    work.append((((False, mf), feats), [h for h in hs if append_of.get(h['name']) == mf]))
                continue
            for h in hs:
                r = seen.get(h['name'])
                if r is None:
                    r = {'status': 'ERROR', 'time_s': None, 'failed_checks': [], 'output_tail': out[-2500:]}
                r.update({'backend': 'kani 0.68 / CBMC 6.11', 'harness': h['name'], 'props': h['props'], 'bound': h['bound'],
                          'counts_as': h.get('counts_as', 'bounded'), 'what': h['what'], 'cmd': ' '.join(cmd)})
                results.append(r)
    finally:
        try:
            lock_fh.close()     # releases the lock
        except Exception:
            pass
        shutil.rmtree(scratch, ignore_errors=True)
    # The step/base contracts of the raw-pointer iterators cover next() and the constructors only.  Iterator's other methods are
    # DEFAULT methods defined through next(); an OVERRIDE of one of them in src/archetype/iter.rs (nth, size_hint, fold, ..) is a new
    # function without a contract: the properties served by the step harnesses are then undecided (never an alarm), unless a bounded
    # harness exhibits a counterexample.
    step = [h for h in harnesses if h['name'].startswith('iter_full_step_')]
    if step:
        try:
            txt = open(os.path.join(REPO, 'src', 'archetype', 'iter.rs')).read()
            fns = sorted(set(re.findall(r'\bfn\s+(\w+)', txt)) - {'next'})
        except OSError as e:
            fns = ['<iter.rs unreadable: %r>' % e]
        if fns:
            results.append({'status': 'UNDECIDED', 'harness': 'iter_rs_uncontracted_methods', 'backend': 'syntactic scan', 'time_s': None,
                            'failed_checks': [], 'props': sorted(set(p for h in step for p in h['props'])), 'bound': '-', 'counts_as': 'bounded',
                            'what': 'src/archetype/iter.rs defines iterator methods besides next(): %s' % ', '.join(fns), 'cmd': 'scan',
                            'output_tail': 'src/archetype/iter.rs defines %s: only next() is under the step contract; an overridden Iterator '
                                           'method has no contract' % ', '.join(fns)})
    for r in results:
        r['wall_s_total'] = round(time.time() - t0, 1)
    return results
