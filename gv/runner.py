"""Decide one property: build the units it depends on from /repo's working tree, run the verifier(s),
attribute every failed obligation to properties, apply the known-findings list, write evidence."""
import concurrent.futures as cf
import hashlib
import json
import os
import re
import sys
import time

from . import verus
from .extract import Cfg, ExtractError, MARK
from .sidecar import SidecarError
from .seqexp import SeqError
from .rustscan import ScanError

HERE = os.path.dirname(os.path.dirname(os.path.abspath(__file__)))
# generated Verus files go to a directory of this process alone (two checks running at the same time would otherwise rewrite each
# other's input files while Verus reads them).  It is kept after the run so that evidence / replay files can point at the verified
# text; directories of finished processes older than two hours are removed at the next start.  GV_GEN_DIR pins the directory.
if os.environ.get('GV_GEN_DIR'):
    GEN = os.environ['GV_GEN_DIR']
else:
    _base = os.path.join(HERE, 'gen')
    GEN = os.path.join(_base, 'run_%d' % os.getpid())
    try:
        import shutil as _sh
        for _d in os.listdir(_base) if os.path.isdir(_base) else []:
            _m = re.match(r'^run_(\d+)$', _d)
            _p = os.path.join(_base, _d)
            if _m and not os.path.exists('/proc/%s' % _m.group(1)) and time.time() - os.path.getmtime(_p) > 7200:
                _sh.rmtree(_p, ignore_errors=True)
    except OSError:
        pass
EVID = os.environ.get('GV_EVID_DIR', os.path.join(HERE, 'evidence'))
REPLAY = os.environ.get('GV_REPLAY_DIR', os.path.join(HERE, 'replays'))     # not 'replay': that is the ./replay script
REPO = os.environ.get('GECS_REPO', '/repo')

ORIGIN_FILES = {
    'index': 'src/index.rs', 'version': 'src/version.rs', 'slot': 'src/archetype/slot.rs', 'entity': 'src/entity.rs',
    'error': 'src/error.rs', 'traits': 'src/traits.rs', 'util': 'src/util.rs', 'storage': 'src/archetype/storage.rs',
    'components': 'src/archetype/components.rs', 'slices': 'src/archetype/slices.rs', 'view': 'src/archetype/view.rs',
    'iter': 'src/iter.rs', 'query': 'macros/src/generate/query.rs', 'data': 'macros/src/data.rs',
    'world': 'macros/src/generate/world.rs', 'gworld': 'macros/src/generate/world.rs',
}

TRUSTED_PATTERNS = [
    ('assume_specification', re.compile(r'\bassume_specification\b')),
    ('external_body', re.compile(r'#\[verifier::external_body\]')),
    ('external_type_specification', re.compile(r'#\[verifier::external_type_specification\]')),
    ('external_trait_specification', re.compile(r'#\[verifier::external_trait_specification\]')),
    ('uninterp', re.compile(r'\buninterp\s+spec\s+fn\b')),
    ('assume', re.compile(r'(?<![\w!])assume\s*\(')),
    ('admit', re.compile(r'\badmit\s*\(\s*\)')),
    ('external', re.compile(r'#\[verifier::external\]')),
]


class ToolFailure(Exception):
    """The machinery could not decide (exit 2): never an alarm."""


def origin_str(origin):
    if not origin:
        return None
    if origin.startswith('C:'):
        return 'verif/contracts/' + origin[2:]
    fid, _, ln = origin.partition(':')
    return '%s:%s' % (ORIGIN_FILES.get(fid, fid), ln)


class Job:
    def __init__(self, unit, cfg, n, builder, threads=4, rlimit=None):
        self.unit, self.cfg, self.n = unit, cfg, n
        self.builder = builder
        self.threads = threads
        self.rlimit = rlimit
        self.gen = None
        self.res = None
        self.error = None

    @property
    def name(self):
        return '%s[%s,N=%d]' % (self.unit, self.cfg.name, self.n)


def confirm_file(job):
    """Copy of the generated file (same line numbering) in which every function touched by a failed obligation of the first run
    gets `#[verifier::spinoff_prover]`: its own solver instance.  A failed query slows down and destabilises every later query
    of a shared Z3 context (measured: 27 s -> 250 s for the same file), so the confirmation run isolates exactly those functions."""
    gen = job.gen
    lines = gen.text.split('\n')
    touched = set()
    for d in job.res.diags:
        if d.kind() not in ('verif', 'limit'):
            continue
        cand = [d.primary_line] + [l[0] for l in d.lines_in(gen.path)]
        for ln in cand:
            f = gen.fn_at(ln) if ln else None
            if f:
                touched.add(f['sig_line'])
    for ln in touched:
        t = lines[ln - 1]
        if 'spinoff_prover' in t or 'spinoff_prover' in lines[max(0, ln - 2)]:
            continue
        ind = len(t) - len(t.lstrip())
        lines[ln - 1] = t[:ind] + '#[verifier::spinoff_prover] ' + t[ind:]
    path = gen.path[:-3] + '_confirm.rs'
    with open(path, 'w') as fh:
        fh.write('\n'.join(lines))
    return path


def run_job(job):
    try:
        job.gen = job.builder(job.cfg, job.n, GEN)
    except (ExtractError, SidecarError, SeqError, ScanError) as e:
        job.error = 'extraction: %s' % e
        return job
    except Exception as e:  # an extractor crash is a tool failure too
        job.error = 'extraction crashed: %r' % e
        return job
    from . import extract as _ex
    for attempt in range(4):
        job.res = verus.run(job.gen.path, rlimit=job.rlimit, threads=job.threads)
        # containment of hints that no longer compile against a rewritten body: make that function external and retry
        bad = set()
        for d in job.res.diags:
            if d.kind() == 'compile' and d.primary_line:
                f = job.gen.fn_at(d.primary_line)
                if f and f.get('contract') and not f.get('external') and f['key'] not in _ex.FORCE_EXTERNAL:
                    bad.add(f['key'])
        if not bad or attempt == 3:
            # confirmation run: a genuine failure is deterministic, an unstable proof is not.  When the first run reports failed
            # obligations, the file is verified again with every function in its own solver instance and 3x the resource limit;
            # only functions that fail in BOTH runs are reported (never an alarm from solver instability).
            if any(d.kind() in ('verif', 'limit') for d in job.res.diags) and not os.environ.get('GV_NO_CONFIRM'):
                first = job.res
                second = verus.run(confirm_file(job), rlimit=30, threads=max(job.threads, 8))
                if not second.crashed:
                    failed2 = set()
                    for d in second.diags:
                        if d.kind() in ('verif', 'limit') and d.primary_line:
                            f = job.gen.fn_at(d.primary_line)
                            failed2.add(f['key'] if f else None)
                    kept = []
                    for d in first.diags:
                        if d.kind() in ('verif', 'limit') and d.primary_line:
                            f = job.gen.fn_at(d.primary_line)
                            if (f['key'] if f else None) not in failed2:
                                continue        # passed in the confirmation run: unstable, not a violation
                        kept.append(d)
                    first.diags = kept
                    first.confirmed_with = second.cmd
                    first.smt_ms += second.smt_ms
            break
        _ex.FORCE_EXTERNAL |= bad
        try:
            job.gen = job.builder(job.cfg, job.n, GEN)
        except (ExtractError, SidecarError, SeqError, ScanError) as e:
            job.error = 'extraction: %s' % e
            return job
    return job


def scan_trusted(gen):
    """Every assumption-introducing construct in the generated file, as (kind, normalised text)."""
    found = []
    for i, line in enumerate(gen.text.split('\n')):
        if 'UNDECIDED-FN' in line:
            continue
        code = line.split('//')[0]
        for kind, rx in TRUSTED_PATTERNS:
            if rx.search(code):
                # describe by the next non-attribute line for attributes
                desc = code.strip()
                if desc.startswith('#['):
                    j = i + 1
                    lines = gen.text.split('\n')
                    while j < len(lines) and (lines[j].strip().startswith('#[') or not lines[j].strip()):
                        j += 1
                    if j < len(lines):
                        desc = desc + ' ' + lines[j].split('//')[0].strip()
                desc = re.sub(r'\s+', ' ', desc)
                desc = re.sub(r'\b(Storage|Components|Slices|View|Borrow|Iter|IterMut)\d+\b', r'\1N', desc)
                desc = re.sub(r'(\bT\d+\s*,?\s*)+', 'T.. ', desc)
                desc = re.sub(r'\b([a-z_]+?)_?\d+\b', r'\1K', desc)
                found.append((kind, desc[:160]))
    return found


def load_allowlist():
    p = os.path.join(HERE, 'contracts', 'trusted_allowlist.json')
    return json.load(open(p))


def check_trusted(gen):
    allow = load_allowlist()
    allowed = set((e['kind'], e['text']) for e in allow['entries'])
    extra = []
    seen = set()
    for kind, desc in scan_trusted(gen):
        seen.add((kind, desc))
        if (kind, desc) not in allowed:
            extra.append((kind, desc))
    return extra, seen


class Failure:
    def __init__(self, job, diag):
        self.job = job
        self.diag = diag
        gen = job.gen
        self.line = diag.primary_line
        self.fn = gen.fn_at(self.line) if self.line else None
        self.fn_key = self.fn['key'] if self.fn else None
        tags = set()
        clause_lines = []
        for (ls, le, label, primary) in diag.lines_in(gen.path):
            for ln in range(ls, min(le, ls) + 1):
                if 1 <= ln <= len(gen.linemap):
                    o, t = gen.linemap[ln - 1]
                    tags.update(t)
            clause_lines.append(ls)
        # a postcondition stated on a TRAIT method is reported at the trait's clause; the function that failed to establish it is the
        # implementation whose body span carries the label "at the end of the function body" / "at this exit": it is the function
        # named in the report, and the properties IT serves are added (the generic clause cannot know the key kind)
        for (ls, le, label, primary) in diag.lines_in(gen.path):
            if 'at the end of the function body' in (label or '') or 'at this exit' in (label or ''):
                g = gen.fn_at(ls)
                if g is not None and self.fn is not None and g['key'] != self.fn['key']:
                    tags.update(g.get('props', []))
                    self.fn = g
                    self.fn_key = g['key']
                    break
        if not tags and self.fn:
            # an untagged obligation (e.g. an intermediate assert of a proof hint, an overflow check, a callee precondition):
            # some postcondition of this function is no longer established, we do not know which -> every property the function serves
            tags.update(self.fn.get('props', []))
            for ln in range(self.fn['start_line'], self.fn['end_line'] + 1):
                tags.update(gen.linemap[ln - 1][1])
        self.tags = tags
        # the clause/statement that failed: prefer a span whose line carries a tag or sits in a spec, else the primary
        self.clause_line = None
        for (ls, le, label, primary) in diag.lines_in(gen.path):
            if 'failed' in (label or '') and ('precondition' in label or 'postcondition' in label or 'invariant' in label):
                self.clause_line = ls
        if self.clause_line is None:
            self.clause_line = self.line
        src = gen.text.split('\n')
        self.clause_text = src[self.clause_line - 1].strip() if self.clause_line else ''
        self.stmt_text = src[self.line - 1].strip() if self.line else ''
        self.origin = origin_str(gen.linemap[self.line - 1][0]) if self.line and self.line <= len(gen.linemap) else None
        self.clause_origin = origin_str(gen.linemap[self.clause_line - 1][0]) if self.clause_line and self.clause_line <= len(gen.linemap) else None
        if self.fn and (self.origin is None or self.origin.startswith('verif/')):
            for ln in range(self.fn.get('sig_line', self.fn['start_line']), self.fn['end_line'] + 1):
                so = gen.linemap[ln - 1][0]
                if so and not so.startswith('C:'):
                    self.origin = origin_str(so)
                    break
        if self.origin is None and self.fn:
            # fall back to the nearest repo-origin line inside the function
            for ln in range(self.line, self.fn['start_line'] - 1, -1):
                o = gen.linemap[ln - 1][0]
                if o and not o.startswith('C:'):
                    self.origin = origin_str(o) + ' (nearest repo line above)'
                    break

    def kind(self):
        m = self.diag.message.replace('post-condition', 'postcondition').replace('pre-condition', 'precondition')
        for k in ('postcondition', 'precondition', 'assertion', 'invariant', 'overflow', 'type invariant', 'decreases', 'termination'):
            if k in m:
                return k.replace(' ', '-')
        return 'obligation'

    def obligation(self):
        return '%s::%s@%s' % (self.fn_key or '?', self.kind(), self.origin or self.clause_origin or '?')

    def describe(self):
        d = {
            'obligation': self.obligation(),
            'function': self.fn_key,
            'kind': self.kind(),
            'message': self.diag.message.split('\n')[0],
            'unit': self.job.name,
            'configuration': self.job.cfg.name,
            'N': self.job.n,
            'repo_location': self.origin,
            'failed_clause': re.sub(r'\s*//~.*$', '', self.clause_text),
            'failed_clause_origin': self.clause_origin,
            'statement': self.stmt_text,
            'properties': sorted(self.tags),
        }
        return d


def load_known():
    p = os.path.join(HERE, 'known_findings.json')
    if not os.path.exists(p):
        return []
    return json.load(open(p)).get('findings', [])


def match_known(prop, f, known):
    for k in known:
        if k.get('status') != 'known':
            continue
        if prop not in k.get('properties', []) and prop != 'C19':
            continue
        if k['function'] != f.fn_key:
            continue
        if k.get('clause_contains') and k['clause_contains'] not in f.clause_text:
            continue
        if 'debug_assertions' in k and k['debug_assertions'] != f.job.cfg.debug:
            continue
        if k.get('kind') and k['kind'] != f.kind():
            continue
        return k
    return None


def decide(prop, tier, seed, jobs, meta, extra_results=None):
    """Run `jobs`, write evidence for `prop`, print VIOLATION / KNOWN-FINDING lines; returns the exit code."""
    t0 = time.time()
    os.makedirs(EVID, exist_ok=True)
    with cf.ThreadPoolExecutor(max_workers=max(1, min(len(jobs), int(os.environ.get('GV_PAR', '8'))))) as ex:
        list(ex.map(run_job, jobs))

    tool_problems = []
    failures = []
    obligations = []      # dicts
    trusted_seen = set()
    rules = {}
    smt_ms = 0
    verus_version = ''
    for job in jobs:
        if job.error:
            tool_problems.append('%s: %s' % (job.name, job.error))
            continue
        gen, res = job.gen, job.res
        verus_version = res.version or verus_version
        smt_ms += res.smt_ms
        for k, v in gen.log.rules.items():
            rules[k] = rules.get(k, 0) + v
        for fk, reason in gen.log.undecided.items():
            fprops = []
            for f in gen.fns:
                if f['key'] == fk:
                    fprops = f.get('props', [])
            if prop in fprops or meta.get('all_props'):
                tool_problems.append('%s: function %s could not be put under its contract (%s); its contract is only ASSUMED in this run'
                                     % (job.name, fk, reason))
        extra, seen = check_trusted(gen)
        trusted_seen |= seen
        if extra:
            tool_problems.append('%s: assumption-introducing constructs not in contracts/trusted_allowlist.json: %s' % (job.name, extra[:5]))
        if res.crashed and not res.diags:
            tool_problems.append('%s: verus produced no result: %s' % (job.name, res.raw_stderr[-400:]))
            continue
        bad_lines = {}
        for d in res.diags:
            k = d.kind()
            if k == 'summary':
                continue
            if k == 'verif':
                f = Failure(job, d)
                # R-inline fallback: the failing function calls a helper that has no contract (added since the contracts were
                # written) and could not be inlined -- a caller is checked against the callee's contract, there is none: undecided
                helper = None
                if f.fn and gen.log.uncontracted_new:
                    body = '\n'.join(gen.text.split('\n')[f.fn['start_line'] - 1:f.fn['end_line']])
                    for nm in gen.log.uncontracted_new:
                        if re.search(r'\b%s\s*\(' % re.escape(nm), body):
                            helper = nm
                if not helper and f.fn:
                    # same principle for closures: Verus gives a closure without requires/ensures no contract at all, so code that
                    # passes a value through an unannotated closure (e.g. `x.map(|v| v)` added by a refactoring) cannot be decided
                    lines_ = gen.text.split('\n')
                    for ln in range(f.fn['start_line'], f.fn['end_line'] + 1):
                        o = gen.linemap[ln - 1][0]
                        if not o or o.startswith('C:'):
                            continue
                        code = re.sub(r'/\*@[^*]*\*/', '', lines_[ln - 1]).split('//')[0]
                        cm = re.search(r'(?<![|&\w])(?:move\s+)?\|\s*((?:(?:mut\s+)?\w+\s*(?::\s*[^,|]+)?\s*,?\s*)*)\|(?!\|)', code)
                        if cm and not re.search(r'\b(forall|exists|choose)\s*$', code[:cm.start()]):
                            nxt = ' '.join(lines_[ln - 1:ln + 3])
                            if not re.search(r'\b(requires|ensures)\b', nxt):
                                helper = 'closure at %s' % origin_str(o)
                                break
                if helper:
                    tool_problems.append('%s: %s fails an obligation but depends on `%s`, a function/closure without contract (added since the '
                                         'contracts were written; R-inline could not replace it by its body): undecided, not a violation' % (job.name, f.fn_key, helper))
                    continue
                if not f.tags:
                    tool_problems.append('%s: failed obligation without property attribution: %s at generated line %s (%s)'
                                         % (job.name, d.message.split(chr(10))[0], f.line, f.fn_key))
                    continue
                failures.append(f)
                bad_lines.setdefault(f.fn_key, []).append(f)
            else:
                tool_problems.append('%s: verifier could not process the file (%s): %s'
                                     % (job.name, k, d.message.split(chr(10))[0][:300]))
        if res.crashed:
            continue
        # obligations: every function Verus produced a query for
        verified_names = {}
        for fb in res.functions:
            short = fb['function'].split('::', 1)[1] if '::' in fb['function'] else fb['function']
            verified_names[short] = fb
        for f in gen.fns:
            if f.get('external'):
                continue
            obligations.append({'unit': job.name, 'function': f['key'], 'props': f.get('props', []),
                                'failed': f['key'] in bad_lines, 'contract': f.get('contract', False)})
        if res.verified == 0 and not res.diags:
            tool_problems.append('%s: verus verified 0 functions (vacuous run)' % job.name)

    if extra_results is not None and hasattr(extra_results, 'result'):
        try:
            extra_results = extra_results.result()
        except Exception as e:  # the Kani layer crashed: tool failure, never an alarm
            tool_problems.append('kani layer crashed: %r' % e)
            extra_results = None
    kani_fail = []
    if extra_results:
        for er in extra_results:
            if er.get('status') == 'FAILED' and (prop in er.get('props', []) or meta.get('all_props')):
                kani_fail.append(er)
            elif er.get('status') not in ('SUCCESSFUL', 'FAILED'):
                tool_problems.append('kani harness %s did not complete (%s): %s' % (er.get('harness'), er.get('status'), er.get('output_tail', '')[-300:]))

    if meta.get('all_props'):
        # C19: the whole obligation set, in every configuration of the matrix
        mine = [o for o in obligations if o['props']]
        my_fail = list(failures)
    else:
        mine = [o for o in obligations if prop in o['props']]
        my_fail = [f for f in failures if prop in f.tags]
    known = load_known()
    known_hits = []
    violations = []
    for f in my_fail:
        k = match_known(prop, f, known)
        if k is not None:
            known_hits.append((k, f))
        else:
            violations.append(f)

    failed_fn_units = set((f.job.name, f.fn_key) for f in violations)
    known_fn_units = set((f.job.name, f.fn_key) for _, f in known_hits) - failed_fn_units
    # obligations that are recorded known findings are reported separately and not counted as (un)discharged
    mine_counted = [o for o in mine if (o['unit'], o['function']) not in known_fn_units]
    n_obl = len(mine_counted)
    n_dis = len([o for o in mine_counted if (o['unit'], o['function']) not in failed_fn_units])

    exit_code = 0
    lines = []
    if tool_problems:
        exit_code = 2
    if n_obl == 0 and not tool_problems:
        tool_problems.append('no obligation generated for %s (vacuous check)' % prop)
        exit_code = 2

    seen_known = set()
    for k, f in known_hits:
        key = (k['id'], f.fn_key)
        if key in seen_known:
            continue
        seen_known.add(key)
        lines.append('KNOWN-FINDING: property=%s %s [%s; %s; obligation %s]' % (prop, k['what'], k['id'], f.job.cfg.name, f.obligation()))

    replay_path = None
    if kani_fail and not violations:
        exit_code = 1
        os.makedirs(REPLAY, exist_ok=True)
        replay_path = os.path.join(REPLAY, '%s_%s_kani.json' % (prop, time.strftime('%Y%m%d_%H%M%S')))
        replayed = [k for k in kani_fail if (k.get('counterexample') or {}).get('fails_natively')]
        with open(replay_path, 'w') as fh:
            json.dump({'property': prop, 'note': 'bounded Kani harness failed on the real code (scratch copy of the current tree). '
                       + ('The counterexample found by CBMC was inserted as a concrete playback test and executed NATIVELY against the real code: it fails there too (see counterexample).'
                          if replayed else 'no-failing-input-found (no concrete playback available for this failure)'),
                       'failed_obligations': [{'obligation': 'kani::' + k['harness'], 'configuration': 'kani', 'N': '-',
                                               'failed_clause': '; '.join(k['failed_checks']), 'repo_location': k['what'],
                                               'counterexample': k.get('counterexample'),
                                               'verifier_output': k['output_tail'], 'checker_cmd': k['cmd']} for k in kani_fail]}, fh, indent=1)
        first = (replayed or kani_fail)[0]
        lines.append('VIOLATION property=%s replay=%s obligation=kani::%s (bounded: %s) %s'
                     % (prop, replay_path, first['harness'], first['bound'].replace(' ', '_'),
                        'counterexample-replayed-on-real-code' if replayed else 'no-failing-input-found'))
    if violations:
        exit_code = 1
        os.makedirs(REPLAY, exist_ok=True)
        replay_path = os.path.join(REPLAY, '%s_%s.json' % (prop, time.strftime('%Y%m%d_%H%M%S')))
        payload = {
            'property': prop,
            'counterexample': None,
            'note': 'Verus gives no counterexample; the failed obligations below passed on the unchanged tree. '
                    'no-failing-input-found',
            'failed_obligations': [],
        }
        seen = set()
        for f in violations:
            d = f.describe()
            keyd = (d['obligation'], d['configuration'], d['N'], d['failed_clause'])
            if keyd in seen:
                continue
            seen.add(keyd)
            d['verifier_output'] = f.diag.rendered
            d['generated_file'] = f.job.gen.path
            d['checker_cmd'] = f.job.res.cmd
            payload['failed_obligations'].append(d)
        for k in kani_fail:
            payload['failed_obligations'].append({'obligation': 'kani::' + k['harness'], 'configuration': 'kani', 'N': '-',
                                                  'failed_clause': '; '.join(k['failed_checks']), 'repo_location': k['what'],
                                                  'counterexample': k.get('counterexample'),
                                                  'verifier_output': k['output_tail'], 'checker_cmd': k['cmd']})
        with open(replay_path, 'w') as fh:
            json.dump(payload, fh, indent=1)
        first = payload['failed_obligations'][0]
        lines.append('VIOLATION property=%s replay=%s obligation=%s cfg=%s N=%s no-failing-input-found'
                     % (prop, replay_path, first['obligation'].replace(' ', '_'), first['configuration'], first['N']))
        # the required form: the line must END with no-failing-input-found when there is no counterexample
        for d in payload['failed_obligations'][:12]:
            lines.append('  failed: %s [%s N=%s] clause: %s' % (d['obligation'], d['configuration'], d['N'], d['failed_clause'][:140]))

    wall = time.time() - t0
    units = []
    for job in jobs:
        u = {'unit': job.name}
        if job.res is not None:
            u.update({'verified_functions': job.res.verified, 'errors': job.res.errors, 'verus_wall_s': round(job.res.wall_s, 2),
                      'smt_ms': job.res.smt_ms, 'generated_file': os.path.relpath(job.gen.path, HERE),
                      'generated_sha256': hashlib.sha256(job.gen.text.encode()).hexdigest()[:16],
                      'repo_sources': job.gen.sources})
        if job.error:
            u['error'] = job.error
        units.append(u)
    fn_contract = sorted(set(o['function'] for o in mine if o['contract']))
    evidence = {
        'property_id': prop,
        'tier': tier,
        'seed': seed,
        'level': 'proof',
        'coverage': {
            'obligations': n_obl,
            'discharged': n_dis,
            'checker_cmd': '; '.join(sorted(set(j.res.cmd.replace(j.gen.path, '<generated file>') for j in jobs if j.res is not None)))[:600],
            'trusted_base': meta.get('trusted_base', []) + ['assumption-introducing constructs in the generated files: ' +
                                                             '; '.join(sorted('%s: %s' % t for t in trusted_seen))[:6000]],
            'obligation_definition': 'one obligation = one function (exec body or proof lemma) tagged with this property in one '
                                     '(unit, configuration, N); it is discharged when Verus proves every VC of that function '
                                     '(postconditions, callee preconditions incl. every unsafe callee, asserts, debug_assert!s, '
                                     'loop invariants, overflow, termination).',
            'functions_under_contract': fn_contract,
            'units': units,
            'samples': [{'unit': o['unit'], 'function': o['function']} for o in mine[:8]],
            'extraction_rules_applied': rules,
            'solver': {'verus': verus_version, 'backend': 'Z3 via Verus', 'smt_ms_total': smt_ms},
            'known_findings_reported': sorted(set(k['id'] for k, _ in known_hits)),
            'undischarged_known_finding_obligations': sorted('%s %s' % u for u in known_fn_units),
            'tool_problems': tool_problems,
            'exhaustive': False,
        },
        'assumptions': meta.get('assumptions', []),
        'wall_s': round(wall, 2),
        'violations': len(violations) + len(kani_fail),
    }
    evidence['coverage'].update(meta.get('coverage_extra', {}))
    if extra_results:
        # Kani harnesses come in two kinds (kani/harnesses.json): `counts_as: complete ..` = loop-free over the full domain of their
        # symbolic inputs (a proof of the stated contract for the element types named in the harness, discharged by CBMC), and
        # everything else = bounded stand-ins, which are never counted as proved.
        def _strip(er):
            return {k: v for k, v in er.items() if k not in ('output_tail',)}
        complete = [er for er in extra_results if str(er.get('counts_as', '')).startswith('complete')]
        bounded = [er for er in extra_results if not str(er.get('counts_as', '')).startswith('complete')]
        evidence['coverage']['bounded_checks_not_counted_as_proved'] = [_strip(er) for er in bounded]
        evidence['coverage']['complete_kani_harnesses'] = [_strip(er) for er in complete]
        n_c = len(complete)
        n_c_ok = len([er for er in complete if er.get('status') == 'SUCCESSFUL'])
        evidence['coverage']['obligations_by_backend'] = {
            'verus_z3': {'obligations': n_obl, 'discharged': n_dis},
            'kani_cbmc_loop_free_full_domain': {'obligations': n_c, 'discharged': n_c_ok,
                                                'solver_time_s': round(sum((er.get('time_s') or 0) for er in complete), 1)}}
        evidence['coverage']['obligations'] = n_obl + n_c
        evidence['coverage']['discharged'] = n_dis + n_c_ok
    with open(os.path.join(EVID, '%s.json' % prop), 'w') as fh:
        json.dump(evidence, fh, indent=1)

    for l in lines:
        print(l)
    if tool_problems:
        for tp in tool_problems[:20]:
            print('UNDECIDED(tool): %s' % tp, file=sys.stderr)
    print('%s: %d/%d obligations discharged over %d unit(s) in %.1fs (tier %s)%s'
          % (prop, n_dis, n_obl, len(jobs), wall, tier, '' if exit_code == 0 else ' -> exit %d' % exit_code))
    return exit_code
