"""Minimal lexical tools for Rust source text.

Nothing here understands Rust's grammar beyond what is needed to cut the
repository's source into items mechanically: comments, string/char literals
and bracket nesting.  All searches are done on a *mask* of the text (same
length, comments and literal contents blanked) so that braces or keywords that
appear inside comments and strings are never mistaken for code.
"""
import re


class ScanError(Exception):
    pass


def mask(text):
    """Return a string of the same length as `text` in which the contents of
    comments, string literals and char literals are replaced by spaces
    (newlines are kept).  Quote characters of strings are kept as '"'."""
    out = list(text)
    n = len(text)
    i = 0
    while i < n:
        c = text[i]
        if c == '/' and i + 1 < n and text[i + 1] == '/':
            j = text.find('\n', i)
            if j < 0:
                j = n
            for k in range(i, j):
                out[k] = ' '
            i = j
        elif c == '/' and i + 1 < n and text[i + 1] == '*':
            depth = 1
            j = i + 2
            while j < n and depth > 0:
                if text.startswith('/*', j):
                    depth += 1
                    j += 2
                elif text.startswith('*/', j):
                    depth -= 1
                    j += 2
                else:
                    j += 1
            for k in range(i, j):
                if out[k] != '\n':
                    out[k] = ' '
            i = j
        elif c == '"' or (c == 'r' and re.match(r'r#*"', text[i:i + 8]) and (i == 0 or not (text[i - 1].isalnum() or text[i - 1] == '_'))) \
                or (c == 'b' and i + 1 < n and text[i + 1] == '"' and (i == 0 or not (text[i - 1].isalnum() or text[i - 1] == '_'))):
            # string literal (plain, raw or byte)
            if c == 'b':
                i += 1
                c = '"'
            if c == 'r':
                m = re.match(r'r(#*)"', text[i:])
                hashes = m.group(1)
                start = i + len(m.group(0))
                end_pat = '"' + hashes
                j = text.find(end_pat, start)
                if j < 0:
                    raise ScanError('unterminated raw string')
                for k in range(start, j):
                    if out[k] != '\n':
                        out[k] = ' '
                i = j + len(end_pat)
            else:
                j = i + 1
                while j < n and text[j] != '"':
                    if text[j] == '\\':
                        j += 1
                    j += 1
                for k in range(i + 1, min(j, n)):
                    if out[k] != '\n':
                        out[k] = ' '
                i = j + 1
        elif c == "'":
            # char literal or lifetime
            m = re.match(r"'(\\.[^']*|[^\\'])'", text[i:i + 12])
            if m:
                for k in range(i + 1, i + len(m.group(0)) - 1):
                    out[k] = ' '
                i += len(m.group(0))
            else:
                i += 1  # lifetime
        else:
            i += 1
    return ''.join(out)


OPEN = {'(': ')', '[': ']', '{': '}'}
CLOSE = {')': '(', ']': '[', '}': '{'}


def match_close(msk, pos):
    """`msk[pos]` is an opening bracket; return the index of its partner."""
    o = msk[pos]
    c = OPEN[o]
    depth = 0
    i = pos
    n = len(msk)
    while i < n:
        ch = msk[i]
        if ch in OPEN:
            depth += 1
        elif ch in CLOSE:
            depth -= 1
            if depth == 0:
                if ch != c:
                    raise ScanError('bracket mismatch at %d: %r vs %r' % (i, o, ch))
                return i
        i += 1
    raise ScanError('unbalanced %r at %d' % (o, pos))


def find_depth0(msk, start, chars, end=None):
    """First index >= start of any char in `chars` at bracket depth 0
    (relative to `start`); -1 if the enclosing bracket closes first or EOF."""
    depth = 0
    i = start
    n = len(msk) if end is None else end
    while i < n:
        ch = msk[i]
        if depth == 0 and ch in chars:
            return i
        if ch in OPEN:
            depth += 1
        elif ch in CLOSE:
            depth -= 1
            if depth < 0:
                return -1
        i += 1
    return -1


def line_start(text, pos):
    return text.rfind('\n', 0, pos) + 1


def line_end(text, pos):
    j = text.find('\n', pos)
    return len(text) if j < 0 else j


def split_top_commas(s):
    """Split `s` at commas at bracket depth 0 (s is code, masked by caller if needed)."""
    m = mask(s)
    parts = []
    depth = 0
    last = 0
    for i, ch in enumerate(m):
        if ch in OPEN:
            depth += 1
        elif ch in CLOSE:
            depth -= 1
        elif ch == ',' and depth == 0:
            parts.append(s[last:i])
            last = i + 1
    parts.append(s[last:])
    return parts
