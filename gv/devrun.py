"""Developer helper: build one unit and summarise Verus' verdict per function."""
import sys, os, json
sys.path.insert(0, os.path.dirname(os.path.dirname(os.path.abspath(__file__))))
from gv.build import build_storage_unit, build_world_unit, build_templates_unit, build_macros_unit
from gv.extract import Cfg
from gv import verus

def main():
    n = int(sys.argv[1]) if len(sys.argv) > 1 else 1
    feats = [f for f in sys.argv[2].split(',') if f] if len(sys.argv) > 2 else []
    dbg = (sys.argv[3] == 'dbg') if len(sys.argv) > 3 else True
    out = os.environ.get('GV_OUT', '/tmp/vtest/gen')
    unit = os.environ.get('GV_UNIT', 'storage')
    if unit == 'world':
        g = build_world_unit(Cfg(feats, dbg), out, n=n)
    elif unit == 'templates':
        g = build_templates_unit(Cfg(feats, dbg), n, out)
    else:
        g = build_storage_unit(Cfg(feats, dbg), n, out)
    r = verus.run(g.path)
    print('%s: verified=%d errors=%d wall=%.1fs smt=%dms crashed=%s' % (g.path, r.verified, r.errors, r.wall_s, r.smt_ms, r.crashed))
    byfn = {}
    for d in r.diags:
        k = d.kind()
        if k == 'summary':
            continue
        f = g.fn_at(d.primary_line) if d.primary_line else None
        key = f['key'] if f else '?'
        byfn.setdefault(key, []).append((k, d.message.split('\n')[0][:90], d.primary_line,
                                         [ (l[0], l[2]) for l in d.lines_in(g.path) if not l[3]]))
    for key, v in byfn.items():
        print(' ', key)
        for item in v:
            line = g.text.split('\n')[item[2]-1].strip()[:110] if item[2] else ''
            print('     ', item[0], item[1], '@%s' % item[2], '|', line, item[3] if item[3] else '')
    if r.crashed:
        print(r.raw_stderr[-3000:])
    slow = sorted(r.functions, key=lambda f: -f['time_ms'])[:5]
    print('slowest:', [(f['function'].split('::',1)[-1], f['time_ms']) for f in slow])

main()
