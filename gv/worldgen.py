"""R-world: the code `ecs_world!` generates for the schema, obtained by evaluating the generator functions of
macros/src/generate/world.rs on the schema (gv/quoteinst.py, R-quote), plus the traits of src/traits.rs it implements.

The instantiated token text is then brought into the subset Verus accepts by the named rules below.  None of them touches a
function body except where stated (R-optmap, R-constpat, R-clone receiver renaming, R-tag type arguments).

    R-tag        `struct ArchA { data: StorageN<ArchA, ..> }` + `impl Archetype for ArchA` is a "cyclic self-reference" for
                 Verus.  The archetype parameter of Entity<..>, EntityDirect<..>, StorageN<..>, SlicesN/ViewN/BorrowN<..>,
                 `<X as Archetype>::Components` and `X::ARCHETYPE_ID` becomes the marker type `ArchATag`, which receives the
                 `const ARCHETYPE_ID` / `type Components` items of the generated `impl Archetype`.
    R-split      trait Archetype of src/traits.rs is split in layers so that the trait graph is acyclic:
                 Archetype (tag: ARCHETYPE_ID, Components) <- ArchetypeTypes (Tag + the GATs Slices/View/Borrow) <-
                 ArchetypeCanResolve<K>/ArchetypeHas<C> <- ArchetypeOps (the DEFAULT methods of trait Archetype, bodies verbatim).
                 trait World likewise: WorldHas<A>/WorldCanResolve<K> <- WorldOps (the default methods of trait World).
                 The required (body-less) methods of Archetype/World are implemented by generated code; their impl items
                 become inherent items of the implementing struct (R-inherent).
    R-inherent   impl blocks of traits whose declaration is not kept (Archetype, World, Components, View, Borrow) become inherent
                 impl blocks; `type X = ..;` items are dropped and `Self::X` replaced by the right-hand side.
    R-implit     functions returning `impl Iterator` (iter, iter_mut, iter_created, iter_destroyed) are dropped: raw-pointer /
                 slice iterators are outside the extracted subset (Kani harnesses cover them, bounded).
    (R-refmut is gone: functions returning RefMut are kept; their contracts state the value the guard exposes at acquisition.)
    R-optmap     `RECV.map(|x| E)` / `RECV.map(Ctor)` on an Option -> `match RECV { Some(x) => Some(E), None => None }`
                 (Verus closures carry no inferred postcondition; constructor-as-function is unsupported).
    R-constpat   `match V { T::CONST => E, .., _ => D }` -> `{ let m = V; if m == T::CONST { E } else .. else { D } }`
                 (associated constants in patterns are unsupported; first-match-wins order is preserved).
    R-clone      `impl Clone for X { fn clone }` -> inherent `clone_body` (as for StorageN); `.clone()` on those receivers renamed.
    R-unchecked  every call `Entity::<T>::from_any_unchecked(e)` in generated code is preceded by the obligation `e.aid() == T::ARCHETYPE_ID`
                 (the function's debug assertion must never fire from library-generated code).
    R-priv       `self.data.m(..)` where m is a PRIVATE inherent method of StorageN is written as the trait call rustc resolves it to in
                 the user's crate (private inherent methods are not candidates there).
    R-implarg    `x: impl Bound` -> named type parameter.
    R-bound      `K: EntityKeyTyped<A>` -> `K: EntityKey` (a weaker bound: what is proved for it holds for the narrower one);
                 supertrait `: World` of WorldHas dropped (unused by its methods).
"""
import re
from . import rustscan as rs
from . import quoteinst
from .extract import ExtractError, add_markers, strip_markers, find_blocks, find_fns, apply_edits, attributed_extent

# main schema:  ecs_world! { ecs_name!(WorldS); #[archetype_id(7)] ecs_archetype!(ArchA, CompX, CompY); #[archetype_id(3)] ecs_archetype!(ArchB, CompX, CompZ); }
# (ids deliberately NOT ascending in declaration order and not starting at 0: position, id and id order all differ)
SCHEMA = quoteinst.schema_world('WorldS', [('ArchA', 7, [('CompX', 0), ('CompY', 1)]), ('ArchB', 3, [('CompX', 0), ('CompZ', 1)])])
# further schemas (thorough tier): the contracts are written in the generator's template notation, so they instantiate for any shape.
# The ids are what DataWorld::new computes for the declarations (explicit id, else previous + 1, else 0: verified under C15).
#   S1:  ecs_world! { ecs_name!(WorldU); ecs_archetype!(ArchP, CompX); }
#   S3:  ecs_world! { ecs_name!(WorldT); #[archetype_id(200)] ecs_archetype!(ArchP, CompX, CompY, CompZ); #[archetype_id(2)] ecs_archetype!(ArchQ, CompZ, CompX, CompY);
#                     ecs_archetype!(ArchR, CompY, #[component_id(9)] CompZ, CompX); }
SCHEMAS = {
    2: SCHEMA,
    1: quoteinst.schema_world('WorldU', [('ArchP', 0, [('CompX', 0)])]),
    3: quoteinst.schema_world('WorldT', [('ArchP', 200, [('CompX', 0), ('CompY', 1), ('CompZ', 2)]),
                                         ('ArchQ', 2, [('CompZ', 0), ('CompX', 1), ('CompY', 2)]),
                                         ('ArchR', 3, [('CompY', 0), ('CompZ', 9), ('CompX', 10)])]),
}


def tag_of(a):
    return a + 'Tag'


# ---------------------------------------------------------------------------------------------- generic text helpers

def blocks_fns(text):
    msk = rs.mask(text)
    blocks = find_blocks(text, msk)
    return msk, blocks, find_fns(text, msk, blocks)


def blank(seg):
    return '\n' * seg.count('\n')


def msub(text, rx, repl, log=None, rule=None, flags=0):
    """regex substitution on the MASK (comments / markers / literals invisible); markers and newlines inside a match are kept
    after the replacement"""
    msk = rs.mask(text)
    edits = []
    for m in re.finditer(rx, msk, flags):
        seg = text[m.start():m.end()]
        keep = ''.join(re.findall(r'/\*@[^*]*\*/\n?|\n', seg))
        new = m.expand(repl) if isinstance(repl, str) else repl(m)
        edits.append((m.start(), m.end() - m.start(), new + keep))
        if log is not None and rule:
            log.rule(rule)
    return apply_edits(text, edits)


def drop_fns_where(text, pred, rule, log):
    """drop every fn item for which pred(f, signature_text) holds"""
    msk, blocks, fns = blocks_fns(text)
    edits = []
    for f in fns:
        sig = strip_markers(text[f.fn_pos:f.body_open])
        if pred(f, sig):
            end = f.body_close + 1
            edits.append((f.item_start, end - f.item_start, blank(text[f.item_start:end])))
            log.rule(rule, f.key)
    return apply_edits(text, edits)


def drop_items(text, rx, rule, log, flags=re.M):
    """drop attributed items whose first line matches rx (on the mask)"""
    while True:
        msk = rs.mask(text)
        m = re.search(rx, msk, flags)
        if not m:
            return text
        if re.match(r'\s*(?:pub\s+)?use\s', m.group(0)):
            end = msk.index(';', m.start()) + 1
        else:
            end = attributed_extent(text, msk, m.start())
        text = text[:m.start()] + blank(text[m.start():end]) + text[end:]
        log.rule(rule, strip_markers(m.group(0)).strip()[:60])


def expr_start(msk, pos):
    """start of the expression that ends just before pos (walking back over balanced brackets)"""
    depth = 0
    i = pos - 1
    while i >= 0:
        ch = msk[i]
        if ch in rs.CLOSE:
            depth += 1
        elif ch in rs.OPEN:
            if depth == 0:
                return i + 1
            depth -= 1
        elif depth == 0 and (ch in ';,' or (ch == '>' and msk[i - 1] == '=') or (ch == '=' and msk[i + 1] != '=' and msk[i - 1] not in '=!<>')):
            return i + 1
        i -= 1
    return 0


def rule_optmap_all(text, log):
    n = 0
    while True:
        msk = rs.mask(text)
        m = None
        for c in re.finditer(r'\.map\s*\(', msk):
            arg = msk[c.end():rs.match_close(msk, c.end() - 1)].strip()
            if arg == 'Into::into':
                continue
            m = c
            break
        if not m:
            return text
        close = rs.match_close(msk, m.end() - 1)
        arg = text[m.end():close]
        amsk = msk[m.end():close]
        s = expr_start(msk, m.start())
        while msk[s].isspace():
            s += 1
        recv = text[s:m.start()]
        cm = re.match(r'\s*\|\s*(\w+)\s*\|', amsk)
        if cm:
            var = cm.group(1)
            body = arg[cm.end():].strip()
        elif re.match(r'^\s*[A-Z]\w*\s*$', amsk):
            var = 'x'
            body = '%s(x)' % strip_markers(arg).strip()
        else:
            raise ExtractError('R-optmap: unsupported argument of .map(): %r' % strip_markers(arg)[:60])
        new = '(match %s { Some(%s) => Some(%s), None => None })' % (recv.strip(), var, body)
        text = text[:s] + new + blank(text[s:close + 1]) + text[close + 1:]
        log.rule('R-optmap', strip_markers(recv).strip()[:60])
        n += 1
        if n > 200:
            raise ExtractError('R-optmap: runaway')


def rule_constpat(text, log):
    """match on associated constants -> if chain"""
    while True:
        msk = rs.mask(text)
        hit = None
        for m in re.finditer(r'\bmatch\b', msk):
            b = rs.find_depth0(msk, m.end(), '{')
            if b < 0:
                continue
            close = rs.match_close(msk, b)
            if re.search(r'(?m)^\s*\w+\s*::\s*[A-Z_]+\s*=>', msk[b + 1:close]):
                hit = (m, b, close)
                break
        if not hit:
            return text
        m, b, close = hit
        scrut = text[m.end():b].strip()
        # arms at depth 0 of the block
        arms = []
        pos = b + 1
        while True:
            while pos < close and msk[pos].isspace():
                pos += 1
            if pos >= close:
                break
            arrow = msk.find('=>', pos, close)
            if arrow < 0:
                raise ExtractError('R-constpat: arm without =>')
            pat = strip_markers(text[pos:arrow]).strip()
            j = arrow + 2
            while msk[j].isspace():
                j += 1
            if msk[j] == '{':
                e = rs.match_close(msk, j)
                body = text[j:e + 1]
                j = e + 1
                while j < close and msk[j].isspace():
                    j += 1
                if j < close and msk[j] == ',':
                    j += 1
            else:
                e = rs.find_depth0(msk, j, ',', close)
                if e < 0:
                    e = close
                body = '{ ' + text[j:e].strip() + ' }'
                j = e + 1
            arms.append((pat, body))
            pos = j
        if not arms or arms[-1][0] != '_':
            raise ExtractError('R-constpat: match without a final wildcard arm')
        out = '{ let gv_m = %s; ' % scrut
        for k, (pat, body) in enumerate(arms[:-1]):
            if not re.match(r'^\w+\s*::\s*[A-Z_]+$', pat):
                raise ExtractError('R-constpat: mixed pattern %r' % pat)
            out += ('if ' if k == 0 else ' else if ') + 'gv_m == %s %s' % (pat, body)
        out += ' else %s }' % arms[-1][1]
        seg = text[m.start():close + 1]
        # keep the number of lines
        pad = seg.count('\n') - out.count('\n')
        text = text[:m.start()] + out + ('\n' * max(pad, 0)) + text[close + 1:]
        log.rule('R-constpat', strip_markers(scrut)[:40])


def trait_defaults(read_repo, trait, log):
    """text of the default (bodied) methods of `trait` in src/traits.rs"""
    raw = add_markers(read_repo('src/traits.rs'), 'traits')
    msk, blocks, fns = blocks_fns(raw)
    hits = [b for b in blocks if b.kind == 'trait' and b.key == trait]
    if len(hits) != 1:
        raise ExtractError('R-default: trait %s not found in src/traits.rs' % trait)
    out = []
    for f in fns:
        if f.block is hits[0] and f.has_body:
            t = raw[f.item_start:f.body_close + 1]
            t = re.sub(r'#\[inline(\(always\))?\]', '', t)
            out.append(t)
    return '\n'.join(out)


def rule_implarg(text, log):
    """R-implarg: `fn f(x: impl Bound)` -> `fn f<GvI: Bound>(x: GvI)` (argument-position impl Trait IS an anonymous type parameter;
    naming it lets the contract speak about the conversion)"""
    while True:
        msk, blocks, fns = blocks_fns(text)
        hit = None
        for f in fns:
            m = re.compile(r':\s*impl\s+').search(msk, f.params_open, f.params_close)
            if m:
                hit = (f, m)
                break
        if not hit:
            return text
        f, m = hit
        end = rs.find_depth0(msk, m.end(), ',', f.params_close)
        # `<`/`>` are not brackets for find_depth0: scan manually
        depth, j = 0, m.end()
        while j < f.params_close:
            ch = msk[j]
            if ch == '<':
                depth += 1
            elif ch == '>' and msk[j - 1] != '-':
                depth -= 1
            elif ch == ',' and depth == 0:
                break
            j += 1
        bound = text[m.end():j].strip()
        name_m = re.compile(r'fn\s+\w+\s*').match(msk, f.fn_pos)
        edits = [(m.start(), j - m.start(), ': GvI')]
        if msk[name_m.end()] == '<':
            d2, k = 0, name_m.end()
            while True:
                if msk[k] == '<':
                    d2 += 1
                elif msk[k] == '>' and msk[k - 1] != '-':
                    d2 -= 1
                    if d2 == 0:
                        break
                k += 1
            edits.append((k, 0, ', GvI: %s' % strip_markers(bound)))
        else:
            edits.append((name_m.end(), 0, '<GvI: %s>' % strip_markers(bound)))
        text = apply_edits(text, edits)
        log.rule('R-implarg', f.key)


def impl_to_inherent(text, trait_rx, log, rule='R-inherent', rename=None, extra_items=None):
    """`impl<..> Trait<..> for Type where .. { items }` -> `impl<..> Type { items }`; `type X = T;` items dropped, Self::X -> T."""
    while True:
        msk, blocks, fns = blocks_fns(text)
        hit = None
        for b in blocks:
            if b.kind == 'impl' and re.match(trait_rx, b.key):
                hit = b
                break
        if not hit:
            return text
        b = hit
        hdr = text[b.header_start:b.open]
        hm = rs.mask(hdr)
        fm = re.search(r'\bfor\b(?!\s*<)', hm)
        im = re.match(r'\s*impl\s*(<[^>]*>)?', hm)
        ty = hdr[fm.end():]
        w = re.search(r'\bwhere\b', rs.mask(ty))
        if w:
            ty = ty[:w.start()]            # HRTB where clauses (`for<'a> C: Clone`) are dropped with the trait
        new_hdr = hdr[:im.end()] + ' ' + ty.strip() + ' ' + blank(hdr)
        body = text[b.open:b.close + 1]
        if extra_items:
            # R-default: the default methods of the trait, copied into each implementing type (what monomorphisation does)
            body = body[:-1] + '\n' + extra_items + '\n}'
            log.rule('R-default', b.key)
        bm = rs.mask(body)
        types = {}
        edits = []
        for tm in re.finditer(r'(?m)^[ \t]*type\s+(\w+)\s*(?:<[^>]*>)?\s*=\s*([^;]+);', bm):
            types[tm.group(1)] = strip_markers(body[tm.start(2):tm.end(2)]).strip()
            edits.append((tm.start(), tm.end() - tm.start(), blank(body[tm.start():tm.end()])))
        body = apply_edits(body, edits)
        for name, rhs in types.items():
            body = re.sub(r'\bSelf::%s\b(?:<[^>]*>)?' % name, lambda _m: rhs if '<' not in _m.group(0) else re.sub(r"<'\w+>", _m.group(0)[_m.group(0).index('<'):], rhs), body)
        if rename:
            for old, new in rename.items():
                body = re.sub(r'\bfn\s+%s\b' % old, 'fn %s' % new, body)
        text = text[:b.header_start] + new_hdr + body + text[b.close + 1:]
        log.rule(rule, b.key)


# ---------------------------------------------------------------------------------------------- adaptation of the instantiated generator text

def tag_rewrite(text, archs, log):
    names = '|'.join(archs)
    msk = rs.mask(text)
    edits = []

    def sub(rx, grp, f):
        for m in re.finditer(rx, msk):
            edits.append((m.start(grp), m.end(grp) - m.start(grp), f(m)))
            log.rule('R-tag')

    sub(r'\b(?:Entity|EntityDirect)\s*(?:::)?\s*<\s*(%s)\s*>' % names, 1, lambda m: tag_of(m.group(1)))
    sub(r'\b(?:Storage|Slices|View|Borrow)\d+\s*<\s*(?:\'\w+\s*,\s*)?(%s)\s*,' % names, 1, lambda m: tag_of(m.group(1)))
    sub(r'<\s*(%s)\s+as\s+Archetype\s*>\s*::\s*Components' % names, 1, lambda m: tag_of(m.group(1)))
    sub(r'\b(%s)\s*::\s*ARCHETYPE_ID\b' % names, 1, lambda m: tag_of(m.group(1)))
    text = apply_edits(text, edits)
    return text


def self_rewrite(text, archs, log):
    """inside `impl .. for ArchX` / `impl ArchX`: Entity::<Self>, <Self as Archetype>::.. -> concrete"""
    msk, blocks, fns = blocks_fns(text)
    edits = []
    for b in blocks:
        if b.kind != 'impl':
            continue
        m = re.search(r'(?:for|^)(%s)$' % '|'.join(re.escape(a) for a in archs), b.key)
        if not m:
            continue
        a = m.group(1)
        seg = msk[b.open:b.close]
        for rx, rep in ((r'\b(?:Entity|EntityDirect)\s*::\s*<\s*(Self)\s*>', tag_of(a)),
                        (r'<\s*Self\s+as\s+Archetype\s*>\s*::\s*(?=Components)', None),
                        (r'\bSelf\s*::\s*(?=Components\b)', None),
                        (r'<\s*Self\s+as\s+(Archetype)\s*>\s*::\s*(?=View|Borrow|Slices)', 'ArchetypeTypes')):
            for mm in re.finditer(rx, seg):
                if rep is None:
                    edits.append((b.open + mm.start(), mm.end() - mm.start(), '<%s as Archetype>::' % tag_of(a)))
                else:
                    edits.append((b.open + mm.start(1), mm.end(1) - mm.start(1), rep))
                log.rule('R-tag', 'Self in impl for %s' % a)
    return apply_edits(text, edits)


def split_archetype_impl(text, a, log):
    """`impl Archetype for A { const ID; type Components; type GATs; fns }` -> tag impl + ArchetypeTypes impl + inherent fns"""
    msk, blocks, fns = blocks_fns(text)
    hits = [b for b in blocks if b.kind == 'impl' and b.key == 'Archetypefor%s' % a]
    if len(hits) != 1:
        raise ExtractError('R-split: expected one `impl Archetype for %s`, found %d' % (a, len(hits)))
    b = hits[0]
    body = text[b.open + 1:b.close]
    bm = rs.mask(body)
    cm = re.search(r'(?m)^[ \t]*(?:#\[[^\]]*\]\s*)*const\s+ARCHETYPE_ID\s*:[^;]*;', bm)
    if not cm:
        raise ExtractError('R-split: const ARCHETYPE_ID not found for %s' % a)
    types = {}
    edits = [(cm.start(), cm.end() - cm.start(), blank(body[cm.start():cm.end()]))]
    for tm in re.finditer(r"(?m)^[ \t]*type\s+(\w+)\s*(<'a>)?\s*=\s*([^;]+);", bm):
        types[tm.group(1)] = (body[tm.start():tm.end()], strip_markers(body[tm.start(3):tm.end(3)]).strip())
        edits.append((tm.start(), tm.end() - tm.start(), blank(body[tm.start():tm.end()])))
    for need in ('Components', 'Slices', 'View', 'Borrow'):
        if need not in types:
            raise ExtractError('R-split: type %s not found in impl Archetype for %s' % (need, a))
    const_txt = re.sub(r'#\[allow\([^\]]*\)\]', '', body[cm.start():cm.end()])
    rest = apply_edits(body, edits)
    rest = re.sub(r'\bSelf::Components\b', '<%s as Archetype>::Components' % tag_of(a), rest)
    tag_impl = ('pub struct %s;\nimpl Archetype for %s {\n%s\n%s\n}\n' % (tag_of(a), tag_of(a), const_txt, types['Components'][0]))
    types_impl = 'impl ArchetypeTypes for %s {\n    type Tag = %s;\n%s\n%s\n%s\n}\n' % (
        a, tag_of(a), types['Slices'][0], types['View'][0], types['Borrow'][0])
    ops_impl = 'impl ArchetypeOps for %s {}\n' % a
    hdr = text[b.header_start:b.open]
    new = tag_impl + types_impl + ops_impl + 'impl %s %s{' % (a, blank(hdr)) + rest + '}'
    log.rule('R-split', 'impl Archetype for %s' % a)
    log.rule('R-inherent', 'Archetype for %s' % a)
    return text[:b.header_start] + new + text[b.close + 1:]


def adapt_generated(text, log, read_repo, schema=None):
    schema = schema or SCHEMA
    archs = [a.name for a in schema.archetypes]
    world = schema.name
    # unwrap the sealed module; drop re-exports, macro_rules and the convenience module
    msk = rs.mask(text)
    m = re.search(r'(?m)^[ \t]*mod\s+ecs_\w+_sealed\s*\{', msk)
    if not m:
        raise ExtractError('R-world: sealed module not found')
    close = rs.match_close(msk, m.end() - 1)
    text = blank(text[:m.end()]) + text[m.end():close] + blank(text[close:])
    log.rule('R-world', 'sealed module unwrapped; re-exports and macro_rules wrappers dropped')
    text = drop_items(text, r'^[ \t]*(?:pub\s+)?use\s', 'R-use', log)
    text = re.sub(r'#\[derive\(Default\)\]', '', text)
    text = re.sub(r'#\[repr\(transparent\)\]', '', text)
    text = re.sub(r'#\[doc\(hidden\)\]', '', text)
    text = re.sub(r'#\[inline(\(always\))?\]', '', text)
    text = re.sub(r'#\[allow\([^\]]*\)\]', '', text)
    # R-derive: the BorrowN wrapper is Clone + Copy in the repository; the extracted BorrowN carries no derive (see storage unit)
    text, nb = re.subn(r'#\[derive\(Clone, Copy\)\](?=(?:/\*@[^*]*\*/|\s)*pub struct \w+Borrow<)', '', text)
    log.rule('R-derive', 'derive(Clone, Copy) on %d generated Borrow wrappers dropped' % nb)
    # R-implit-concrete: the event iterators return `impl Iterator<Item = &T>`; the return type is written as the concrete type of the
    # body (`slice.iter()` -> std::slice::Iter<'_, T>, `EcsEventIterator { .. }` -> EcsEventIterator<'_>): rustc checks that it IS the
    # body's type, and the contract can then speak about the iterator's remaining elements
    text = msub(text, r"(fn\s+iter_(?:created|destroyed)\s*\(&self\)\s*->\s*)impl\s+Iterator<Item\s*=\s*&(Entity<\w+>)>", r"\1Iter<'_, \2>", log, 'R-implit-concrete')
    text = msub(text, r"(fn\s+iter_(?:created|destroyed)\s*\(&self\)\s*->\s*)impl\s+Iterator<Item\s*=\s*&EntityAny>", r"\1EcsEventIterator<'_>", log, 'R-implit-concrete')
    # R-implit / R-refmut
    text = drop_fns_where(text, lambda f, sig: re.search(r'->\s*impl\s+Iterator', sig) is not None, 'R-implit', log)
    # Default impls carry HRTB where clauses (`for<'a> C: Default`) and are irrelevant to every property
    text = impl_drop(text, r'^Defaultfor', 'R-dropitem', log)
    # R-clone
    for a in archs + [world]:
        text = impl_to_inherent(text, r'^Clonefor%s$' % a, log, rule='R-clone', rename={'clone': 'clone_body'})
    text = re.sub(r'\b(self\.\w+)\.clone\(\)', r'\1.clone_body()', text)
    # R-split / R-inherent
    for a in archs:
        text = split_archetype_impl(text, a, log)
    text = impl_to_inherent(text, r'^Worldfor%s$' % world, log)
    text = text + '\nimpl WorldOps for %s {}\n' % world
    log.rule('R-split', 'impl World for %s -> inherent items + `impl WorldOps` (default methods)' % world)
    text = impl_to_inherent(text, r'^Componentsfor', log)
    text = impl_to_inherent(text, r'^View<\'a>for', log, extra_items=trait_defaults(read_repo, 'View', log))
    text = impl_to_inherent(text, r'^Borrow<\'a>for', log, extra_items=trait_defaults(read_repo, 'Borrow', log))
    text = impl_to_inherent(text, r'^Iteratorfor', log)        # EcsEventIterator: nothing in the verified text calls it through the trait
    # R-tag
    text = tag_rewrite(text, archs, log)
    text = self_rewrite(text, archs, log)
    text = rule_implarg(text, log)
    # bodies
    text = rule_private(text, read_repo, log)
    text = rule_unchecked(text, log)
    text = rule_optmap_all(text, log)
    text = rule_constpat(text, log)
    return text


def rule_private(text, read_repo, log):
    """R-priv: the generated code lives in the USER's crate: private inherent methods of StorageN are not candidates of method
    resolution there, so `self.data.m(..)` with m private resolves to the trait method of the same name (StorageCanResolve is
    in scope through `use ::gecs::__internal::*`).  In the single verified file everything is visible (R-vis), so such calls are
    written in the form rustc resolves them to.  A private name without a trait method of that name is an error (the real
    expansion would not compile)."""
    st = read_repo('src/archetype/storage.rs')
    sm = rs.mask(st)
    private = set(m.group(1) for m in re.finditer(r'(?m)^[ \t]*(?:unsafe\s+)?fn\s+(\w+)', sm))
    public = set(m.group(1) for m in re.finditer(r'(?m)^[ \t]*pub\s+(?:unsafe\s+)?fn\s+(\w+)', sm))
    tr = read_repo('src/traits.rs')
    tm = rs.mask(tr)
    b = re.search(r'pub\s+trait\s+StorageCanResolve[^{]*\{', tm)
    tclose = rs.match_close(tm, b.end() - 1)
    trait_fns = {}
    for m in re.finditer(r'fn\s+(\w+)\s*\(\s*(&\s*mut\s+self|&\s*self)', tm[b.end():tclose]):
        trait_fns[m.group(1)] = '&mut ' if 'mut' in m.group(2) else '&'
    msk = rs.mask(text)
    edits = []
    for m in re.finditer(r'\b(self\.data)\s*\.\s*(\w+)\s*\(', msk):
        name = m.group(2)
        if name in public:
            continue
        if name in private:
            if name not in trait_fns:
                raise ExtractError('R-priv: generated code calls the private storage method %s' % name)
            edits.append((m.start(), m.end() - m.start(), 'StorageCanResolve::%s(%s%s, ' % (name, trait_fns[name], m.group(1))))
            log.rule('R-priv', 'self.data.%s(..) -> StorageCanResolve::%s' % (name, name))
    return apply_edits(text, edits)


def rule_unchecked(text, log):
    """R-unchecked: `from_any_unchecked` is only sound when the caller has checked the archetype id ("We can use from_any_unchecked
    because we just checked the archetype").  Every call in generated code gets that check as an obligation in front of it."""
    msk = rs.mask(text)
    edits = []
    n_all = len(re.findall(r'\bfrom_any_unchecked\s*\(', msk))
    for m in re.finditer(r'\b(Entity|EntityDirect)\s*::\s*<\s*(\w+)\s*>\s*::\s*from_any_unchecked\s*\(', msk):
        close = rs.match_close(msk, m.end() - 1)
        arg = strip_markers(text[m.end():close]).strip()
        # an unchecked conversion lets a handle of ANOTHER archetype resolve here: that is C01 (and C09 for direct handles) as much as C03
        # (seed C01j was caught under C03 only while this obligation carried `C03 C14`)
        tags = 'C01 C03 C14' if m.group(1) == 'Entity' else 'C01 C03 C09 C14'
        edits.append((m.start(), 0, '({ proof { assert((%s).aid() == %s::ARCHETYPE_ID); /* R-unchecked */ //~ %s\n } ' % (arg, m.group(2), tags)))
        edits.append((close + 1, 0, ' })'))
        log.rule('R-unchecked', '%s::<%s>::from_any_unchecked(%s)' % (m.group(1), m.group(2), arg))
    if len(edits) != 2 * n_all:
        raise ExtractError('R-unchecked: a call of from_any_unchecked in generated code has an unexpected shape')
    return apply_edits(text, edits)


def impl_drop(text, key_rx, rule, log):
    while True:
        msk, blocks, fns = blocks_fns(text)
        hit = [b for b in blocks if b.kind == 'impl' and re.match(key_rx, b.key)]
        if not hit:
            return text
        b = hit[0]
        s = rs.line_start(text, b.header_start)
        text = text[:s] + blank(text[s:b.close + 1]) + text[b.close + 1:]
        log.rule(rule, b.key)


# ---------------------------------------------------------------------------------------------- src/traits.rs

def traits_text(read_repo, cfg, log, common_rules, table):
    rel = 'src/traits.rs'
    raw = add_markers(read_repo(rel), 'traits')
    from .extract import rule_cfg
    raw = rule_cfg(raw, cfg, log)        # before R-use: `#[cfg(doc)] use ..;` must not leave its attribute on the next item
    raw = common_rules(raw, cfg, rel, table, log)
    msk, blocks, fns = blocks_fns(raw)

    def block(name):
        hits = [b for b in blocks if b.kind == 'trait' and b.key == name]
        if len(hits) != 1:
            raise ExtractError('R-split: trait %s not found in src/traits.rs' % name)
        return hits[0]

    def trait_parts(name):
        b = block(name)
        defaults, required, others = [], [], []
        for f in fns:
            if f.block is b:
                (defaults if f.has_body else required).append(raw[f.item_start:f.body_close + 1])
        return b, defaults, required

    out = []
    # ---- Archetype -> ArchetypeTypes + ArchetypeOps
    b, defaults, required = trait_parts('Archetype')
    body = raw[b.open + 1:b.close]
    gats = []
    for tm in re.finditer(r"(?m)^[ \t]*type\s+(Slices|Borrow|View)\s*<'a>[^;]*;", rs.mask(body)):
        g = body[tm.start():tm.end()]
        g = re.sub(r":\s*(?:Borrow|View)<'a,\s*Archetype\s*=\s*Self>", '', g)       # bounds on the GATs dropped (cycle)
        gats.append(g)
    if len(gats) != 3:
        raise ExtractError('R-split: expected the GATs Slices/Borrow/View in trait Archetype')
    out.append('pub trait ArchetypeTypes: Sized {\n    type Tag: Archetype;\n' + '\n'.join(gats) + '\n}\n')
    log.rule('R-split', 'trait Archetype -> Archetype(tag) / ArchetypeTypes / ArchetypeOps')
    for r_ in required:
        log.rule('R-inherent', 'required method of trait Archetype: %s' % re.search(r'fn\s+(\w+)', rs.mask(r_)).group(1))
    keep = list(defaults)
    ops = 'pub trait ArchetypeOps: ArchetypeTypes {\n' + '\n'.join(keep) + '\n}\n'
    # ---- ArchetypeCanResolve / ArchetypeHas
    acr = block('ArchetypeCanResolve')
    acr_t = raw[rs.line_start(raw, acr.header_start):acr.close + 1]
    ah = block('ArchetypeHas')
    ah_t = raw[rs.line_start(raw, ah.header_start):ah.close + 1]
    # ---- World -> WorldOps ; WorldHas ; WorldCanResolve
    wb, wdefaults, wrequired = trait_parts('World')
    for r_ in wrequired:
        log.rule('R-inherent', 'required method of trait World: %s' % re.search(r'fn\s+(\w+)', rs.mask(r_)).group(1))
    wops = 'pub trait WorldOps: Sized {\n' + '\n'.join(wdefaults) + '\n}\n'
    wh = block('WorldHas')
    wh_t = raw[rs.line_start(raw, wh.header_start):wh.close + 1]
    wcr = block('WorldCanResolve')
    wcr_t = raw[rs.line_start(raw, wcr.header_start):wcr.close + 1]
    text = '\n'.join(out) + acr_t + '\n' + ah_t + '\n' + ops + '\n' + wh_t + '\n' + wcr_t + '\n' + wops
    # ---- type-level rewrites (R-split / R-tag / R-bound)
    text = msub(text, r'(pub\s+trait\s+ArchetypeHas<C>)\s*:\s*Archetype\b', r'\1: ArchetypeTypes')
    text = msub(text, r'(pub\s+trait\s+WorldHas<A:\s*)Archetype(>)\s*:\s*World\b', r'\1ArchetypeOps\2')
    text = msub(text, r'(pub\s+trait\s+ArchetypeCanResolve<K:\s*EntityKey>)', r'\1: ArchetypeTypes')
    text = msub(text, r'\bwhere\s+Self:\s*Archetype\s*;', ';')
    text = msub(text, r'\bwhere\s+Self:\s*Archetype\s*,?\s*(?=\{)', '')
    text = msub(text, r'\bA:\s*Archetype\b', 'A: ArchetypeOps')
    text = msub(text, r'\bK:\s*EntityKeyTyped<A>', 'K: EntityKey')
    text = msub(text, r'\bSelf::Components\b', '<Self::Tag as Archetype>::Components')
    text = msub(text, r'\bA::Components\b', '<A::Tag as Archetype>::Components')
    text = msub(text, r'\b(Entity|EntityDirect)<Self>', r'\1<Self::Tag>')
    text = msub(text, r'\b(Entity|EntityDirect)<A>', r'\1<A::Tag>')
    text = rule_implarg(text, log)
    log.rule('R-bound', 'EntityKeyTyped<A> -> EntityKey; WorldHas supertrait World dropped')
    return text
