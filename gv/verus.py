"""Run Verus on a generated file and classify the outcome."""
import json
import os
import re
import subprocess
import time

VERUS = os.environ.get('VERUS_BIN', 'verus')

# Messages of genuine verification failures (an obligation was generated and the solver refuted / could not prove it).
VERIF_FAIL = (
    'postcondition not satisfied',
    'precondition not satisfied',
    'assertion failed',
    'invariant not satisfied',
    'possible arithmetic underflow/overflow',
    'possible division by zero',
    'possible bit shift underflow/overflow',
    'constructed value may fail to meet its declared type invariant',
    'unreachable code may be reachable',  # placeholder, harmless if never emitted
    'decreases not satisfied',
    'could not prove termination',
    'loop invariant not preserved',
    'failed to meet its declared type invariant',
    'recommendation not met',
    'precondition not met',
    'evaluates to false',           # assert(..) by (compute_only) refuted by evaluation
    'expression simplifies to',
    'index in bounds',
    'unable to prove post-condition of closure',
    'unable to prove this pattern will successfully match',
    'requires not satisfied',
    'cannot show that this value is variant',
    'bitvector assertion not satisfied',
    'may fail to meet its declared type invariant',
    'assertion failed'
)
TOOL_LIMIT = ('rlimit', 'Resource limit', 'timed out', 'timeout', 'could not determine')


def _resolve_span(s, fname):
    """Follow macro expansions outwards until the span lies in `fname` (the generated file)."""
    cur = s
    seen = 0
    found = None
    while cur is not None and seen < 20:
        if os.path.basename(cur.get('file_name', '')) == os.path.basename(fname):
            # keep walking: a span inside a macro DEFINED in the generated file (debug_checked_assume!) is less useful than the
            # place the macro is used from -- the outermost span that lies in the generated file wins
            found = dict(cur)
            found['is_primary'] = s.get('is_primary')
            found['label'] = s.get('label')
        exp = cur.get('expansion')
        cur = exp.get('span') if exp else None
        seen += 1
    return found


class Diag:
    def __init__(self, d, fname=None):
        self.message = d.get('message', '')
        self.level = d.get('level')
        self.code = (d.get('code') or {}).get('code') if d.get('code') else None
        spans = d.get('spans', [])
        if fname:
            spans = [x for x in (_resolve_span(s, fname) for s in spans) if x is not None]
        self.spans = spans
        self.rendered = d.get('rendered', '')
        self.children = d.get('children', [])

    @property
    def primary_line(self):
        for s in self.spans:
            if s.get('is_primary'):
                return s['line_start']
        return self.spans[0]['line_start'] if self.spans else None

    def lines_in(self, fname):
        out = []
        for s in self.spans:
            if os.path.basename(s.get('file_name', '')) == os.path.basename(fname):
                out.append((s['line_start'], s['line_end'], s.get('label') or '', bool(s.get('is_primary'))))
        return out

    def kind(self):
        msg = self.message
        if self.code:
            return 'compile'
        for k in TOOL_LIMIT:
            if k in msg:
                return 'limit'
        for k in VERIF_FAIL:
            if k in msg:
                return 'verif'
        if msg.startswith('aborting due to'):
            return 'summary'
        return 'compile'


class Result:
    def __init__(self):
        self.ok = False
        self.verified = 0
        self.errors = 0
        self.diags = []
        self.functions = []     # from function-breakdown: dict(function, success, time_ms, rlimit)
        self.smt_ms = 0
        self.total_ms = 0
        self.wall_s = 0.0
        self.raw_stderr = ''
        self.cmd = ''
        self.crashed = False
        self.version = ''


def run(path, rlimit=None, threads=None, extra=(), timeout=1800):
    cmd = [VERUS, path, '--output-json', '--time', '--error-format=json', '--triggers-mode', 'silent',
           '--multiple-errors', '20']
    if rlimit:
        cmd += ['--rlimit', str(rlimit)]
    if threads:
        cmd += ['--num-threads', str(threads)]
    cmd += list(extra)
    res = Result()
    res.cmd = ' '.join(cmd)
    t0 = time.time()
    try:
        p = subprocess.run(cmd, stdout=subprocess.PIPE, stderr=subprocess.PIPE, timeout=timeout,
                           cwd=os.path.dirname(path) or '.', env=dict(os.environ, RUST_BACKTRACE='0'))
    except subprocess.TimeoutExpired:
        res.crashed = True
        res.raw_stderr = 'verus timed out after %ds' % timeout
        res.wall_s = time.time() - t0
        return res
    res.wall_s = time.time() - t0
    res.raw_stderr = p.stderr.decode('utf-8', 'replace')
    out = p.stdout.decode('utf-8', 'replace')
    try:
        j = json.loads(out)
    except Exception:
        res.crashed = True
        j = {}
    vr = j.get('verification-results', {})
    res.verified = vr.get('verified', 0)
    res.errors = vr.get('errors', 0)
    res.ok = bool(vr.get('success'))
    res.encountered_vir_error = bool(vr.get('encountered-vir-error'))
    res.version = (j.get('verus') or {}).get('version', '')
    t = j.get('times-ms', {})
    res.total_ms = t.get('total', 0)
    smt = t.get('smt', {})
    res.smt_ms = smt.get('total', 0)
    for mod in smt.get('smt-run-module-times', []):
        for fb in mod.get('function-breakdown', []):
            res.functions.append({'function': fb['function'], 'success': fb.get('success', False),
                                  'time_ms': fb.get('time', 0), 'rlimit': fb.get('rlimit', 0), 'mode': fb.get('mode:', '')})
    for line in res.raw_stderr.split('\n'):
        line = line.strip()
        if not line.startswith('{'):
            continue
        try:
            d = json.loads(line)
        except Exception:
            continue
        if d.get('level') in ('error',):
            res.diags.append(Diag(d, path))
    return res
