"""Parser for the contract sidecar files (contracts/*.vsp).

Format: every line starting with `@@` at column 0 is a directive; all other
lines are text that belongs to the most recent text-taking directive.

  @@# comment
  @@file <repo-relative path>            following @@fn/@@ghost/@@drop refer to this file
  @@ghost top                            text emitted at top level after the file's items
  @@ghost impl <impl-key>                text inserted at the start of that impl/trait block
  @@ghost before-item <regex>            text inserted before the first line matching regex
  @@fn <impl-key>::<name> [props=C01,C02] [ret=<name>] [maypanic]
    @@spec                               requires/ensures/decreases (inserted before the body `{`)
    @@start                              text inserted right after the body `{`
    @@after <anchor> [@@k=<n>|last]      text inserted after the line containing <anchor>
    @@before <anchor> [@@k=<n>|last]     text inserted before the line containing <anchor>
    @@closure <k>                        annotates the k-th closure `|x| BODY` of the function: first text line = typed parameters
                                         (replaces `x`), remaining lines = `-> (r: T) requires .. ensures ..`; BODY is wrapped in braces
    @@lettype <var> <type>               adds a type ascription to `let [mut] <var> = ..` (rustc rejects a wrong one; no semantic effect)
    @@end                                text inserted before the last code line of the body (the tail expression, descending
                                         into trailing blocks); use only when that line is a simple expression
    @@loop <k> [<iter>]                  (optional <iter>: names the ghost iterator, `for x in <iter>: expr`) text inserted before the `{` of the k-th loop header (1-based)
  @@const <NAME>                         like @@fn, for `const NAME: T = expr;` (R-const)
  @@drop <impl-key>[::<name>] <reason>   item or function not extracted (named drop)
  @@dropre <regex> <reason>              drop the item starting at the first line matching regex
  @@attr <regex> <attribute text>        insert an attribute line before the first line matching regex
  @@externbody <impl-key>::<name>        function keeps its signature, gets external_body + @@spec; body dropped (R-dataptr)

A trailing `//~ C01 C02` on a text line tags the obligation written on that
line with property ids (used to attribute a failed clause to properties).
"""
import re


class SidecarError(Exception):
    pass


class FnSpec:
    def __init__(self, key, kind='fn'):
        self.key = key
        self.kind = kind          # fn | const | externbody
        self.props = []
        self.ret = None
        self.maypanic = False
        self.spec = []            # list of (text, origin)
        self.start = []
        self.inserts = []         # (mode, anchor, k, [(text, origin)])
        self.loops = {}           # k -> [(text, origin)]
        self.loopnames = {}       # k -> ghost iterator name (Verus `for x in NAME: expr`)
        self.lettypes = []        # (var, type): type ascription added to `let [mut] var = ..` (annotation only)
        self.closures = {}        # k -> [(text, origin)]: first line = typed parameter list, rest = `-> (r: T) requires .. ensures ..`
        self.origin = None
        self.used = False


class Sidecar:
    def __init__(self):
        self.files = {}           # path -> FileSpec

    def file(self, path):
        if path not in self.files:
            self.files[path] = FileSpec(path)
        return self.files[path]


class FileSpec:
    def __init__(self, path):
        self.path = path
        self.fns = {}             # key -> FnSpec
        self.ghost_top = []       # list of [(text, origin)]
        self.ghost_impl = {}      # impl-key -> [(text, origin)]
        self.ghost_before = []    # (regex, [(text, origin)])
        self.drops = {}           # key -> reason
        self.dropre = []          # (regex, reason)
        self.attrs = []           # (regex, text)


def norm_key(k):
    k = re.sub(r'\s+', '', k)
    k = k.replace(',>', '>')
    return k


def parse(path, text=None, sc=None):
    if text is None:
        text = open(path).read()
    if sc is None:
        sc = Sidecar()
    cur_file = None
    cur_fn = None
    sink = None  # list receiving text lines
    name = path.split('/')[-1]
    for ln, line in enumerate(text.split('\n'), 1):
        origin = 'C:%s:%d' % (name, ln)
        if not line.startswith('@@'):
            if sink is not None:
                sink.append((line, origin))
            elif line.strip():
                raise SidecarError('%s:%d: text outside of a directive' % (path, ln))
            continue
        if line.startswith('@@#'):
            continue
        parts = line[2:].split(None, 1)
        d = parts[0]
        arg = parts[1].strip() if len(parts) > 1 else ''
        if d == 'file':
            cur_file = sc.file(arg)
            cur_fn = None
            sink = None
        elif d == 'ghost':
            if cur_file is None:
                raise SidecarError('%s:%d: @@ghost before @@file' % (path, ln))
            cur_fn = None
            kind, _, rest = arg.partition(' ')
            sink = []
            if kind == 'top':
                cur_file.ghost_top.append(sink)
            elif kind == 'impl':
                cur_file.ghost_impl.setdefault(norm_key(rest), []).append(sink)
            elif kind == 'before-item':
                cur_file.ghost_before.append((rest.strip(), sink))
            else:
                raise SidecarError('%s:%d: bad @@ghost kind %r' % (path, ln, kind))
        elif d in ('fn', 'const', 'externbody'):
            if cur_file is None:
                raise SidecarError('%s:%d: @@%s before @@file' % (path, ln, d))
            toks = arg.split()
            # key may contain spaces (e.g. "From<TrimmedIndex> for u32::from"); options are key=value or 'maypanic'
            opts = []
            while toks and (re.match(r'^(props|ret)=', toks[-1]) or toks[-1] == 'maypanic'):
                opts.append(toks.pop())
            key = norm_key(' '.join(toks))
            fs = FnSpec(key, d)
            fs.origin = origin
            for o in opts:
                if o == 'maypanic':
                    fs.maypanic = True
                elif o.startswith('props='):
                    fs.props = [p for p in o[6:].split(',') if p]
                elif o.startswith('ret='):
                    fs.ret = o[4:]
            if key in cur_file.fns:
                raise SidecarError('%s:%d: duplicate contract for %s' % (path, ln, key))
            cur_file.fns[key] = fs
            cur_fn = fs
            sink = None
        elif d == 'spec':
            sink = cur_fn.spec
        elif d == 'start':
            sink = cur_fn.start
        elif d in ('after', 'before'):
            k = 1
            m = re.search(r'\s@@k=(\w+)\s*$', arg)
            if m:
                k = m.group(1)
                k = k if k == 'last' else int(k)
                arg = arg[:m.start()]
            sink = []
            cur_fn.inserts.append((d, arg.strip(), k, sink, origin))
        elif d == 'closure':
            sink = []
            cur_fn.closures[int(arg)] = sink
        elif d == 'lettype':
            v, _, t = arg.partition(' ')
            cur_fn.lettypes.append((v.strip(), t.strip()))
            sink = None
        elif d == 'end':
            sink = []
            cur_fn.inserts.append(('end', '', 1, sink, origin))
        elif d == 'loop':
            sink = []
            a = arg.split()
            cur_fn.loops[int(a[0])] = sink
            if len(a) > 1:
                cur_fn.loopnames[int(a[0])] = a[1]
        elif d == 'drop':
            key, _, reason = arg.partition(' ')
            # key may contain spaces when it is a trait impl; reason is introduced by ' -- '
            if ' -- ' in arg:
                key, _, reason = arg.partition(' -- ')
            cur_file.drops[norm_key(key)] = reason.strip() or 'unspecified'
            sink = None
        elif d == 'dropre':
            rx, _, reason = arg.partition(' -- ')
            cur_file.dropre.append((rx.strip(), reason.strip()))
            sink = None
        elif d == 'attr':
            rx, _, txt = arg.partition(' -- ')
            cur_file.attrs.append((rx.strip(), txt.strip()))
            sink = None
        else:
            raise SidecarError('%s:%d: unknown directive @@%s' % (path, ln, d))
    return sc
