"""Which units decide which property, per tier."""
from .extract import Cfg
from .runner import Job
from . import build

D = Cfg((), True)
R = Cfg((), False)
DE = Cfg(('events',), True)
RE = Cfg(('events',), False)
DW = Cfg(('wrapping_version',), True)
RW = Cfg(('wrapping_version',), False)
DEW = Cfg(('events', 'wrapping_version'), True)
REW = Cfg(('events', 'wrapping_version'), False)
ALL_CFGS = [D, R, DE, RE, DW, RW, DEW, REW]

A_COMMON = [
    'A-verus: Verus 0.2026.09.13 + Z3 + the rustc front end are sound; machine integers are modelled exactly (every +, -, <<, cast is an overflow obligation).',
    'A-std: assumed specifications for std items without a vstd spec (contracts/prelude.rs): Option::unwrap_unchecked, <[T]>::get_unchecked(_mut), '
    'NonZeroU32::{MIN, checked_add} and value-extensionality, RefCell::{new,get_mut,borrow} and Ref deref (functional value only; the dynamic borrow flag is NOT modelled), '
    'MaybeUninit::write, <u64 as Hash>::hash (a hasher is the sequence of words fed to it), std::slice::Iter::size_hint (exact).',
    'A-dataptr: DataPtr<T> method bodies (raw pointers, allocator) are outside Verus; their contracts over the ghost view cells(): Seq<Option<T>> '
    '(contracts/storage.vsp, transcribed from the # Safety sections) are assumed in the Verus units. On the real bodies they are discharged by the loop-free '
    'full-domain Kani harnesses (kani/dataptr_full_harness.rs: capacity symbolic over 1..=2^24, element types u64, [u8; 3], a zero-sized Drop type) for write / slice / '
    'slice_mut / raw_data / swap_remove / grow / dealloc, and checked bounded (capacity <= 4 resp. 8) for the destructor loop drop_to and for an over-aligned element type; '
    'parametricity of the bodies in T beyond size and alignment is assumed.',
    'A-transmute: `From<&Entity<A>> for &EntityAny` / `From<&EntityDirect<A>> for &EntityDirectAny` (mem::transmute of a repr(transparent) wrapper) keep their signature with the ASSUMED contract '
    '`*r == value.any()` (used by the generated event iterator); the loop-free full-domain Kani harness entity_transmute checks it on the real code.',
    'A-alloc: allocation failure aborts; size_of::<T>() * 2^24 <= isize::MAX, so DataPtr allocation panics and Vec::push capacity overflow are unreachable.',
    'A-gen: in the storage units, impls of ComponentsN / SlicesN / ViewN are generated code and their contracts (pack/unpack fields in order) are assumed; '
    'in the world / templates units they are the code section_archetype() generates for the schema and are verified against those contracts.',
    'A-N: results hold for the instantiated component counts N listed in coverage.units only (the macro is uniform in N, but no N is claimed that was not run).',
    'A-rustc: ownership, borrowing and Drop glue of safe code are as rustc defines them.',
    'R-rules: the verified text is /repo\'s text after the named mechanical rules of DESIGN.md section 3 (counts per run in coverage.extraction_rules_applied); '
    'not extracted: Display/Debug impls, raw-pointer iterators (iter/iter_mut), reference transmutes. RefCell guards (Ref, RefMut): functional value at acquisition only, the dynamic borrow flag and writes through a RefMut guard are not modelled.',
]

TB_COMMON = ['Verus 0.2026.09.13 (rust_verify, vstd)', 'Z3 (bundled with Verus)', 'rustc 1.98.1 front end',
             'gv/extract.py extraction rules (R-*)', 'contracts/prelude.rs (A-std specifications)', 'DataPtr contracts (A-dataptr)']


A_WORLD = [
    'A-quote: the generated archetype / world code is obtained by evaluating the generator functions of macros/src/generate/world.rs as text templates for fixed schemas '
    '(WorldS { #[archetype_id(7)] ArchA(CompX, CompY), #[archetype_id(3)] ArchB(CompX, CompZ) } (ids deliberately not ascending in declaration order) in both tiers; in the thorough tier also WorldU { ArchP(CompX) } and '
    'WorldT { #[archetype_id(200)] ArchP(X, Y, Z), #[archetype_id(2)] ArchQ(Z, X, Y), ArchR(Y, #[component_id(9)] Z, X) }; opaque Clone component types) with gv/quoteinst.py; assumed: quote! interpolation / repetition '
    'behave as documented, convert_case Pascal->snake is the usual conversion for these identifiers, the archetype / component ids are the ones DataWorld::new computes for these declarations (that rule is verified under C15). '
    'Universality over world declarations is not claimed.',
    'R-world: the instantiated text is verified after the named rules of gv/worldgen.py (R-tag marker types because `struct A { data: StorageN<A, ..> }` is a cyclic self-reference for Verus; '
    'R-split of trait Archetype / World into acyclic layers with the default-method bodies verbatim; R-inherent; R-optmap; R-constpat; R-clone; R-priv; R-unchecked; R-implarg; R-bound). '
    'Not extracted from the generated code: functions returning impl Iterator over raw-pointer iterators (iter, iter_mut), Default impls, '
    'the generic forwarding TryFrom<&Entity<A>> / TryFrom<&mut ..> impls of the hidden __WorldSelectTotal enum, the macro_rules wrappers.',
    'A-std: core\'s reflexive `impl<T> From<T> for T` is the identity (axiom_into_reflexive in contracts/prelude.rs; used where generated code passes an already built Components struct through `impl Into<Components>`).',
]


def storage_jobs(cfg_ns, threads=4):
    return [Job('storage', c, n, build.build_storage_unit, threads=threads) for (c, n) in cfg_ns]


def template_jobs(cfgs, threads=4):
    return [Job('templates', c, 2, build.build_templates_unit, threads=threads) for c in cfgs]


def world_jobs(cfgs, threads=4, n=2):
    """the code ecs_world! generates for a schema + the traits it implements (R-quote, R-world), over StorageN:
    n = 2: WorldS { ArchA#7(CompX, CompY), ArchB#3(CompX, CompZ) } (main schema, also used by the templates unit);
    n = 1: WorldU { ArchP(CompX) };   n = 3: WorldT { ArchP#200(X, Y, Z), ArchQ#2(Z, X, Y), ArchR(Y, Z#9, X) }"""
    return [Job('world', c, n, build.build_world_job, threads=threads) for c in cfgs]


def other_schemas(prop):
    """thorough tier: the generated layer for the two other schema shapes"""
    ev = prop == 'C17'
    return world_jobs([DE if ev else D], threads=3, n=1) + world_jobs([RE if ev else R, DE], threads=3, n=3)


# properties whose obligations include the generated archetype / world layer
WORLD_PROPS = ('C01', 'C02', 'C03', 'C04', 'C08', 'C09', 'C12', 'C13', 'C14', 'C15', 'C17')


# properties whose obligations include the instantiated query templates (the templates unit CONTAINS the world unit)
TEMPLATE_PROPS = ('C01', 'C02', 'C03', 'C06', 'C07', 'C09', 'C10')


def jobs_for(prop, tier):
    jobs = _jobs_for(prop, tier) + _world_for(prop, tier)
    seen, out = set(), []
    for j in jobs:
        if j.name not in seen:
            seen.add(j.name)
            out.append(j)
    return out


def _world_for(prop, tier):
    if prop == 'C19':
        return (template_jobs([D, REW]) if tier == 'quick' else template_jobs(ALL_CFGS, threads=2) + world_jobs([D, REW], threads=2, n=1) + world_jobs([DE, RW], threads=2, n=3))
    if prop in TEMPLATE_PROPS:
        return template_jobs([D]) if tier == 'quick' else template_jobs([D, R, DE, REW], threads=3) + (other_schemas(prop) if prop in WORLD_PROPS else [])
    if prop not in WORLD_PROPS:
        return []
    if prop == 'C17':
        # events: the templates unit (which contains the world unit) under the events configurations: destroyed log through ecs_iter_destroy!
        return template_jobs([DE]) if tier == 'quick' else template_jobs([DE, RE, DEW], threads=3) + other_schemas(prop)
    if tier == 'quick':
        return world_jobs([D])
    return world_jobs([D, R, DE, REW], threads=3) + other_schemas(prop)


def _jobs_for(prop, tier):
    quick = tier == 'quick'
    if prop == 'C07':
        if quick:
            return template_jobs([D]) + storage_jobs([(R, 1)])
        return template_jobs([D, R, DE, REW], threads=3) + storage_jobs([(c, n) for c in ALL_CFGS for n in (1, 2, 3)], threads=2)
    if prop in ('C06', 'C09'):
        if quick:
            return storage_jobs([(D, 1), (R, 2), (DE, 1)]) + template_jobs([D])
        cfgns = [(c, n) for c in ALL_CFGS for n in (1, 2, 3)] + [(D, n) for n in range(4, 17)] + [(R, 17), (D, 32)]
        return storage_jobs(cfgns, threads=2) + template_jobs([D, R, DE, REW], threads=3)
    if prop in ('C01', 'C02', 'C03', 'C04', 'C06', 'C08', 'C09', 'C10', 'C12', 'C13'):
        if quick:
            if prop in ('C10', 'C08'):
                # the generation-overflow behaviour differs per configuration (documented panic vs. wrap-around): both in the quick tier
                # (seed C10k: a debug_assert that only fires under wrapping_version + debug assertions was exit 0 before)
                return storage_jobs([(D, 1), (R, 2), (DE, 1), (DW, 1)])
            return storage_jobs([(D, 1), (R, 2), (DE, 1)])
        cfgns = [(c, n) for c in ALL_CFGS for n in (1, 2, 3)] + [(D, n) for n in range(4, 17)] + [(R, 17), (D, 32)]
        return storage_jobs(cfgns, threads=2)
    if prop == 'C17':
        if quick:
            return storage_jobs([(DE, 1), (RE, 2)])
        return storage_jobs([(c, n) for c in (DE, RE, DEW, REW) for n in (1, 2, 3)] + [(DE, 16)], threads=2)
    if prop == 'C14':
        if quick:
            return storage_jobs([(D, 0), (R, 0)])
        return storage_jobs([(c, 0) for c in ALL_CFGS], threads=2)
    if prop in ('C15', 'C05', 'C16'):
        return [Job('macros', D, 0, build.build_macros_unit, threads=4)]
    if prop == 'C19':
        if quick:
            return storage_jobs([(c, 1) for c in ALL_CFGS], threads=2)
        cfgns = [(c, n) for c in ALL_CFGS for n in (1, 2, 3)] + [(D, 16), (R, 17), (D, 32), (REW, 32)]
        return storage_jobs(cfgns, threads=2)
    raise KeyError(prop)


def extra_backends(prop, tier, seed):
    import os
    if os.environ.get('GV_NO_KANI'):
        return None      # self-tests of the Verus contracts only (never set by the registered commands)
    from . import kani
    hs = kani.harnesses_for(prop, tier)
    return kani.run(hs) if hs else None


A_MACROS = [
    A_COMMON[0],
    'A-dep: syn / proc_macro2 types are stubs (contracts/macros_stub.rs): an identifier or token stream is abstracted by its text; to_string() is a function of that text; clone preserves it. '
    'evaluate_cfgs / is_cfg_enabled are verified (an item is enabled iff every one of its predicates is true in the lookup table) under the caller assumption that every predicate decorating an item is a key of the table '
    '(decl_cfgs_known / cfgs_known). That assumption is discharged by the verified collection functions collect_all_cfg_predicates / get_cfg_predicates (complete, sound, pairwise distinct) and the verified table-building tail of '
    'ParseCfgDecorated::parse (R-zipslice: sliced from `let mut predicates = ..` on; R-zip: `for (p, s) in X.drain(..).zip(Y)` -> index loop over the shorter length; its `assert!(predicates.len() == states.len())` is a listed consistency guard): '
    'the i-th collected predicate maps to the i-th boolean. What precedes the slice (syn ParseStream code producing `states` and `inner`) is outside.',
    'A-derive: the derived Clone impls of the parse types (ParseQueryParam, ParseQueryParamType, ParseAttributeCfg) are field-wise (the derives are dropped by R-derive and replaced by trusted stand-ins).',
    'A-std: String obeys the HashMap key model and is determined by its content (axiom_string_obeys_key_model, axiom_string_ext; vstd has the key-model axiom for the primitive types only); Vec::drain(..) consumed by a for loop yields the elements in order (R-drain).',
    'Caller assumptions (preconditions of bind_query_params): the parser never produces the reserved parameter variants Option/With/Without (justified on every run by a syntactic check: no expression of macros/src constructs them; exit 2 otherwise); archetype names of one world are pairwise distinct.',
    'R-emit: the emission skeletons of generate_query_find / generate_query_iter / generate_query_iter_destroy are SLICES of the real functions (gv/emit.py): from `let bound_params = bind_query_params(..)?` on, '
    'keeping the binding call, `let mut queries`, the for / if-let headers, continue/break guards, `queries.push(..)` and the final if/else; every other statement must be a `let` that passes a syntactic purity check and is dropped; '
    'quote!(..) -> opaque gv_tokens(), syn::Error::new_spanned(..) -> gv_error(). Token CONTENT is outside the claim (the block content is verified for one schema by R-tmpl in the templates unit).',
    'Partial claim: the content of emitted token streams beyond the schema instantiation, the text of compile errors, the cfg pre-pass (is_cfg_enabled) and the parsers (macros/src/parse/*) are outside these contracts.',
    'R-rules: the verified text is the text of macros/src/{data.rs, generate/query.rs, parse/*.rs (struct definitions)} after R-items, R-derive, R-syn, R-drain, R-continue, R-optmap, R-lettype, R-emit (DESIGN.md section 3).',
]


def meta_for(prop):
    m = {'assumptions': list(A_COMMON), 'trusted_base': list(TB_COMMON)}
    if prop in ('C05', 'C15', 'C16'):
        m = {'assumptions': list(A_MACROS), 'trusted_base': ['Verus 0.2026.09.13 (rust_verify, vstd)', 'Z3 (bundled with Verus)', 'rustc 1.98.1 front end',
                                                              'gv/extract.py extraction rules (R-*)', 'contracts/macros_stub.rs (syn stand-ins)']}
        if prop == 'C16':
            m['assumptions'].append('C16 is decided RELATIVE TO THE EVALUATED cfg TABLE: the evaluation of the predicates themselves (the generated cfg-probing macro chain of macros/src/generate/cfg.rs, i.e. rustc), '
                                    'the order in which that chain threads its booleans, the syn parsers, and the #[cfg] attributes re-emitted on closure parameters are outside these contracts (partial claim).')
        if prop == 'C15':
            m['assumptions'].append('Kani harness select_conversions_all_ids (one declared world) is a complete check of the generated Select* tables for THAT declaration only.')
    if prop in TEMPLATE_PROPS or prop == 'C17':
        m['assumptions'] = list(A_COMMON) + [
            A_WORLD[0], A_WORLD[1],
            'R-tmpl: the ecs_find! / ecs_find_borrow! / ecs_iter! / ecs_iter_borrow! / ecs_iter_destroy! templates are instantiated for ONE schema (two archetypes over Storage2) and ONE parameter list (Entity<_>, EntityDirect<_>, &mut CompX; the *_borrow! forms with &CompX and with &mut CompX); the user closure is an unspecified stand-in whose `requires` are the obligations on its arguments; universality over programs is not claimed.',
        ]
    if prop in WORLD_PROPS or prop == 'C19':
        for a in A_WORLD:
            if a not in m['assumptions']:
                m['assumptions'].append(a)
        m['trusted_base'] = list(m['trusted_base']) + ['gv/quoteinst.py + gv/worldgen.py (R-quote, R-world)']
    if prop == 'C19':
        m['all_props'] = True
    return m
