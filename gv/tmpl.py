"""R-tmpl: instantiate the query templates of macros/src/generate/query.rs for a fixed schema.

The argument of the `queries.push(quote!( .. ))` of a generator function is taken as TEXT (with its origin markers) and its
#holes are filled the way `quote!` fills them for the schema of gv/worldgen.py (SCHEMA):
    #Archetype      -> the schema archetype type          #get_archetype -> the FetchMode::Mut arm of `let get_archetype = ..`
    #get_slices     -> the FetchMode::Mut arm of `let get_slices = ..`      #world -> `world`, #archetype -> snake-case field
    #bind           -> the quote! texts of iter_bind_mut for the schema's parameter list (Entity<_>, EntityDirect<_>, &mut CompX)
The user closure is not code of the library: its definition line is dropped and `closure(ARGS)` becomes a call of the
unspecified stand-in `decide_<arch>(Ghost(tmpl_row), ARGS)` whose `requires` are the obligations on the arguments.
R-iife: the wrapper `(||{ #(#queries)* })()` is removed and the blocks become the whole body of the harness function, so that
`return` leaves the harness exactly as it leaves the wrapper closure in the real expansion.
`::gecs::__internal::` path prefixes are stripped (single file).
"""
import re
from . import rustscan as rs
from .extract import ExtractError, add_markers, strip_markers, find_blocks, find_fns, Log


def fn_body(raw, msk, name):
    fns = [f for f in find_fns(raw, msk, find_blocks(raw, msk)) if f.name == name and f.has_body]
    if len(fns) != 1:
        raise ExtractError('R-tmpl: expected exactly one fn %s in query.rs, found %d' % (name, len(fns)))
    return fns[0]


def quote_arg_after(raw, msk, start, end, what):
    m = re.compile(r'quote!\s*\(').search(msk, start, end)
    if not m:
        raise ExtractError('R-tmpl: no quote!( after %s' % what)
    close = rs.match_close(msk, m.end() - 1)
    return raw[m.end():close], close


def arm_extent(msk, after_arrow, limit):
    """extent (start, end) of the expression of a match arm whose `=>` ends at `after_arrow`: a block, or up to the `,` / `}` ending the arm"""
    i = after_arrow
    while i < limit and msk[i].isspace():
        i += 1
    if msk[i] == '{':
        return i, rs.match_close(msk, i) + 1
    d = 0
    j = i
    while j < limit:
        ch = msk[j]
        if ch in rs.OPEN:
            d += 1
        elif ch in rs.CLOSE:
            d -= 1
            if d < 0:
                return i, j
        elif ch == ',' and d == 0:
            return i, j
        j += 1
    return i, limit


_QUOTERS = {}


def eval_arm(raw, msk, start, end, what, log):
    """The token text an arm evaluates to.  `quote!( .. )` directly -> its argument; anything else (a call of a helper of the
    generator, `let x = helper(); quote!(#x ..)`) is evaluated by the R-quote interpreter.  Never looks beyond the arm."""
    txt = raw[start:end]
    t = strip_markers(txt).strip()
    if t.startswith('{') and t.endswith('}'):
        inner = t[1:-1].strip()
        m = re.match(r'^quote!\s*\(', inner)
        if m and rs.match_close(rs.mask(inner), m.end() - 1) == len(inner) - 1:
            return inner[m.end():-1].strip()
    m = re.match(r'^quote!\s*\(', t)
    if m and rs.match_close(rs.mask(t), m.end() - 1) == len(t) - 1:
        return t[m.end():-1].strip()
    from .quoteinst import Quoter
    from .extract import Cfg
    q = _QUOTERS.get(id(raw))
    if q is None:
        q = _QUOTERS[id(raw)] = Quoter(raw, Cfg(), log, 'macros/src/generate/query.rs')
    q.log = log
    try:
        val = q.eval_expr(txt, {})
        if not isinstance(val, str):
            raise ExtractError('R-tmpl: arm %s does not evaluate to tokens' % what)
    except ExtractError:
        # locals of the arm that the interpreter does not know (e.g. the bound pattern variable): when the arm contains exactly
        # one quote!, its argument is taken as text and the caller fills the holes (unfilled holes are an extraction error)
        qs = list(re.compile(r'quote!\s*\(').finditer(msk, start, end))
        if len(qs) != 1:
            raise
        close = rs.match_close(msk, qs[0].end() - 1)
        return strip_markers(raw[qs[0].end():close]).strip()
    log.rule('R-quote', 'arm %s evaluated by the interpreter' % what)
    return strip_markers(val).strip()


def let_match_arm(raw, msk, f, var, arm):
    m = re.compile(r'let\s+%s\s*=\s*match\s+\w+\s*\{' % re.escape(var)).search(msk, f.body_open, f.body_close)
    if not m:
        raise ExtractError('R-tmpl: `let %s = match .. {` not found in %s' % (var, f.name))
    bclose = rs.match_close(msk, m.end() - 1)
    a = re.compile(re.escape(arm) + r'\s*=>').search(msk, m.end(), bclose)
    if not a:
        raise ExtractError('R-tmpl: arm %s of %s not found' % (arm, var))
    s0, e0 = arm_extent(msk, a.end(), bclose)
    return eval_arm(raw, msk, s0, e0, '%s/%s' % (var, arm), Log())


def bind_text(raw, msk, f, arm, sub=None, log=None):
    a = re.compile(r'ParseQueryParamType::%s\b[^=]*?=>' % re.escape(arm)).search(msk, f.body_open, f.body_close)
    if not a:
        raise ExtractError('R-tmpl: arm %s not found in %s' % (arm, f.name))
    s0, e0 = arm_extent(msk, a.end(), f.body_close)
    if sub:
        s = re.compile(r'\b' + re.escape(sub) + r'\s*=>').search(msk, s0, e0)
        if not s:
            raise ExtractError('R-tmpl: sub-arm %s of %s not found' % (sub, arm))
        s1, e1 = arm_extent(msk, s.end(), e0)
        txt, _ = quote_arg_after(raw, msk, s1, e1, '%s/%s' % (arm, sub))
        return strip_markers(txt).strip()
    return eval_arm(raw, msk, s0, e0, '%s of %s' % (arm, f.name), log or Log())


def template_blocks(raw, gen_fn, bind_fn, archetypes, params, decide_prefix, log, mode='Mut'):
    """archetypes: list of dicts(type, field, suffix); params: list of (kind, component-field or None, is_mut)."""
    msk = rs.mask(raw)
    f = fn_body(raw, msk, gen_fn)
    m = re.compile(r'queries\.push\s*\(\s*quote!\s*\(').search(msk, f.body_open, f.body_close)
    if not m:
        raise ExtractError('R-tmpl: queries.push(quote!( not found in %s' % gen_fn)
    close = rs.match_close(msk, m.end() - 1)
    tmpl = raw[m.end():close]
    get_archetype = let_match_arm(raw, msk, f, 'get_archetype', 'FetchMode::' + mode)
    get_slices = let_match_arm(raw, msk, f, 'get_slices', 'FetchMode::' + mode)
    bf = fn_body(raw, msk, bind_fn)
    binds = []
    for kind, comp, is_mut in params:
        if kind == 'Component':
            t = bind_text(raw, msk, bf, 'Component', 'true' if is_mut else 'false')
            t = t.replace('#ident', comp)
        else:
            t = bind_text(raw, msk, bf, kind, log=log)
        binds.append(t)
    # the wrapper: Ok(quote!( (||{#(#queries)*})() ))
    w = re.compile(r'\(\s*\|\|\s*\{\s*#\(\s*#queries\s*\)\s*\*\s*\}\s*\)\s*\(\s*\)').search(msk, f.body_open, f.body_close)
    if not w:
        raise ExtractError('R-iife: the wrapper (||{#(#queries)*})() was not found in %s' % gen_fn)
    log.rule('R-iife', gen_fn)
    out = []
    for a in archetypes:
        t = tmpl
        # drop the closure definition (not library code)
        t2 = re.sub(r'[ \t]*let\s+mut\s+closure\s*=\s*\|[^\n]*#body\s*;', '// (user closure definition dropped: R-tmpl)', t)
        if t2 == t:
            raise ExtractError('R-tmpl: closure definition line not found in the template of %s' % gen_fn)
        t = t2
        call = re.compile(r'closure\s*\(\s*#\(\s*#attrs\s+#bind\s*\)\s*,\s*\*\s*\)')
        if not call.search(t):
            raise ExtractError('R-tmpl: closure call not found in the template of %s' % gen_fn)
        t = call.sub('%s_%s(Ghost(tmpl_row), %s)' % (decide_prefix, a['suffix'], ', '.join(binds)), t)
        t = t.replace('#get_archetype', get_archetype).replace('#get_slices', get_slices)
        t = t.replace('#Archetype', a['type']).replace('#world', 'world').replace('#archetype', a['field'])
        t = t.replace('::gecs::__internal::', '__internal::')
        # Verus has no item statements: `type MatchedArchetype = X;` is dropped and the alias replaced by X (R-tmpl-alias)
        am = re.search(r'type\s+MatchedArchetype\s*=\s*([\w:<>, ]+?)\s*;', t)
        if not am:
            raise ExtractError('R-tmpl: alias `type MatchedArchetype = ..;` not found in the template of %s' % gen_fn)
        t = t[:am.start()] + '// (alias MatchedArchetype = %s inlined: R-tmpl-alias)' % am.group(1) + t[am.end():]
        t = re.sub(r'\bMatchedArchetype\b(?! =)', am.group(1), t)
        left = re.findall(r'#\w+', rs.mask(t))
        if left:
            raise ExtractError('R-tmpl: unfilled holes %s in the template of %s' % (sorted(set(left)), gen_fn))
        out.append(t)
        log.rule('R-tmpl', '%s instantiated for %s' % (gen_fn, a['type']))
    return out


def find_template(raw, world_name, archetypes, params, decide_prefix, key_expr, log, mode='Mut'):
    """R-tmpl for ecs_find! (generate_query_find, FetchMode::Mut): the per-archetype arms of `queries.push(quote!( .. ))` are
    instantiated for every schema archetype and spliced into the wrapper `{ match #Total::try_from(#entity).expect(..) { #(#queries)* _ => None, } }`
    (text of the generator's final `Ok(quote!( .. ))`).  archetypes: dicts(type = R-tag marker type, name, field, suffix)."""
    msk = rs.mask(raw)
    f = fn_body(raw, msk, 'generate_query_find')
    m = re.compile(r'queries\.push\s*\(\s*quote!\s*\(').search(msk, f.body_open, f.body_close)
    if not m:
        raise ExtractError('R-tmpl: queries.push(quote!( not found in generate_query_find')
    close = rs.match_close(msk, m.end() - 1)
    arm_tmpl = raw[m.end():close]
    get_archetype = let_match_arm(raw, msk, f, 'get_archetype', 'FetchMode::' + mode)
    fetch = let_match_arm(raw, msk, f, 'fetch', 'FetchMode::' + mode)
    tm = re.compile(r'let\s+__WorldSelectTotal\s*=\s*format_ident!\s*\(\s*"([^"]*)"\s*,\s*world_data\.name\s*\)').search(msk, f.body_open, f.body_close)
    if not tm:
        raise ExtractError('R-tmpl: `let __WorldSelectTotal = format_ident!(..)` not found in generate_query_find')
    fm = re.search(r'format_ident!\s*\(\s*"([^"]*)"', raw[tm.start():tm.end()])
    total = fm.group(1).replace('{}', world_name)
    rm = re.compile(r'let\s+resolved_entity\s*=\s*quote_spanned!\s*\(\s*Span::mixed_site\(\)\s*=>\s*(\w+)\s*\)').search(msk, f.body_open, f.body_close)
    if not rm:
        raise ExtractError('R-tmpl: `let resolved_entity = quote_spanned!(..)` not found')
    resolved = rm.group(1)
    bf = fn_body(raw, msk, 'find_bind_mut' if mode == 'Mut' else 'find_bind_borrow')
    binds = []
    for kind, comp, is_mut in params:
        if kind == 'Component' and mode == 'Borrow':
            t = bind_text(raw, msk, bf, 'Component', 'true' if is_mut else 'false')
        else:
            t = bind_text(raw, msk, bf, kind, log=log)
        if kind == 'Component':
            t = t.replace('#ident', comp)
        binds.append(t)
    # the wrapper: Ok(quote!( { match .. } ))
    w = re.compile(r'Ok\s*\(\s*quote!\s*\(').search(msk, close, f.body_close)
    if not w:
        raise ExtractError('R-tmpl: the wrapper Ok(quote!( .. )) was not found in generate_query_find')
    wclose = rs.match_close(msk, w.end() - 1)
    wrapper = raw[w.end():wclose]
    arms = []
    for a in archetypes:
        t = arm_tmpl
        t2 = re.sub(r'[ \t]*let\s+mut\s+closure\s*=\s*\|[^\n]*#body\s*;', '// (user closure definition dropped: R-tmpl)', t)
        if t2.count('R-tmpl)') != 2:
            raise ExtractError('R-tmpl: expected two closure definition lines in the ecs_find! arm template')
        t = t2
        call = re.compile(r'closure\s*\(\s*#\(\s*#attrs\s+#bind\s*\)\s*,\s*\*\s*\)')
        if len(call.findall(t)) != 2:
            raise ExtractError('R-tmpl: closure calls not found in the ecs_find! arm template')
        t = call.sub('%s_%s(Ghost(tmpl_row), %s)' % (decide_prefix, a['suffix'], ', '.join(binds)), t)
        t = t.replace('#__WorldSelectTotal::#ArchetypeDirect', '%s::%sDirect' % (total, a['name']))
        t = t.replace('#__WorldSelectTotal::#Archetype', '%s::%s' % (total, a['name']))
        t = t.replace('#resolved_entity', resolved)
        t = t.replace('#fetch', fetch).replace('#get_archetype', get_archetype).replace('#resolved_entity', resolved)
        t = t.replace('#Archetype', a['type']).replace('#world', 'world').replace('#archetype', a['field'])
        t = t.replace('::gecs::__internal::', '__internal::')
        while True:
            am = re.search(r'type\s+MatchedArchetype\s*=\s*([\w:<>, ]+?)\s*;', t)
            if not am:
                break
            t = t[:am.start()] + '// (alias MatchedArchetype = %s inlined: R-tmpl-alias)' % am.group(1) + t[am.end():]
        t = re.sub(r'\bMatchedArchetype\b(?! =)', a['type'], t)
        left = re.findall(r'#\w+', rs.mask(t))
        if left:
            raise ExtractError('R-tmpl: unfilled holes %s in the ecs_find! arm template' % sorted(set(left)))
        arms.append(t)
        log.rule('R-tmpl', 'generate_query_find instantiated for %s' % a['name'])
    qm = re.search(r'#\(\s*#queries\s*\)\s*\*', wrapper)
    if not qm:
        raise ExtractError('R-tmpl: #(#queries)* not found in the ecs_find! wrapper')
    out = wrapper[:qm.start()] + '\n'.join(arms) + wrapper[qm.end():]
    out = out.replace('#__WorldSelectTotal', total).replace('#entity', key_expr)
    left = re.findall(r'#\w+', rs.mask(out))
    if left:
        raise ExtractError('R-tmpl: unfilled holes %s in the ecs_find! wrapper' % sorted(set(left)))
    return out
