"""R-quote: evaluate a generator function of macros/src/generate/*.rs for a fixed schema, as TEXT.

`quote!` is a text template: `#name` is replaced by the value of the local `name`, `#( .. ) sep *` repeats its body once per
element of the iterable locals used inside it (in lock step).  The locals are computed by the generator function from the
schema (`DataWorld`) with a handful of expression forms (format_ident!, to_snake, iter().map(..).collect(), ranges, calls of
sibling generator functions, cfg!(feature = ..)).  This module interprets exactly those forms; anything else raises
ExtractError (exit 2, never an alarm).  The result is the token text the proc macro would emit for the schema, with the
origin markers of the template lines it came from.

Assumptions (reported as A-quote): `quote!` interpolation and repetition behave as documented; `convert_case`'s
Pascal->snake conversion is the usual one for the schema's identifiers; the hash / base64 values that only name hidden
macro_rules items are irrelevant (those items are dropped).
"""
import re
from . import rustscan as rs
from .extract import ExtractError, strip_markers, find_blocks, find_fns, eval_cfg_pred


def to_snake(name):
    s = re.sub(r'(?<=[a-z0-9])(?=[A-Z])', '_', name)
    s = re.sub(r'(?<=[A-Z])(?=[A-Z][a-z])', '_', s)
    return s.lower()


class _NoTail(ExtractError):
    pass


class Closure:
    def __init__(self, names, body, env):
        self.names, self.body, self.env = names, body, env


class Obj(dict):
    """a schema record (DataWorld / DataArchetype / DataComponent)"""
    __getattr__ = dict.get


def schema_world(name, archetypes):
    """archetypes: [(name, id, [(component name, id)])]"""
    return Obj(name=name, archetypes=[Obj(name=a, id=i, components=[Obj(name=c, id=ci) for c, ci in comps]) for a, i, comps in archetypes])


class Quoter:
    def __init__(self, raw_marked, cfg, log, relname):
        self.raw = raw_marked
        self.msk = rs.mask(raw_marked)
        self.cfg = cfg
        self.log = log
        self.rel = relname
        blocks = find_blocks(self.raw, self.msk)
        self.fns = {}
        for f in find_fns(self.raw, self.msk, blocks):
            if f.has_body and f.block is None and f.name not in self.fns:
                self.fns[f.name] = f
        self.drop_fns = {}      # generator fn name -> reason: evaluates to nothing (logged)
        self.envs = {}          # generator fn name -> [locals at its tail quote!], one per evaluation

    # ------------------------------------------------------------------ expression evaluation
    def split_method_chain(self, s):
        """split `a.b(c).d::<T>()` at top-level dots"""
        m = rs.mask(s)
        parts, depth, last, i, angle = [], 0, 0, 0, 0
        while i < len(m):
            ch = m[i]
            if ch in rs.OPEN:
                depth += 1
            elif ch in rs.CLOSE:
                depth -= 1
            elif ch == '<' and i > 0 and (m[i - 1].isalnum() or m[i - 1] in '_:'):
                # a generic argument list (`Vec<_>`, `collect::<..>`); a comparison `a < b` is written with spaces
                depth += 1
                angle += 1
            elif ch == '>' and angle > 0 and m[i - 1] not in '-=':
                depth -= 1
                angle -= 1
            elif ch == '.' and depth == 0 and not (m[i + 1:i + 2] == '.' or m[i - 1:i] == '.'):
                parts.append(s[last:i])
                last = i + 1
            i += 1
        parts.append(s[last:])
        return [p.strip() for p in parts]

    def eval_expr(self, s, env):
        s = strip_markers(s).strip()
        s = re.sub(r'//[^\n]*', '', s).strip()
        m = re.match(r'^quote!\s*\(', s)
        if m and rs.match_close(rs.mask(s), m.end() - 1) == len(s) - 1:
            return self.instantiate(s[m.end():-1], env)
        m = re.match(r'^format_ident!\s*\(\s*"([^"]*)"\s*(?:,(.*))?\)$', s, re.S)
        if m:
            args = [self.eval_expr(a, env) for a in rs.split_top_commas(m.group(2) or '') if a.strip()]
            return self.fmt(m.group(1), args)
        m = re.match(r'^format!\s*\(', s)
        if m:
            return '"doc"'
        m = re.match(r'^to_snake\s*\(\s*&?(.*)\)$', s, re.S)
        if m:
            return to_snake(self.eval_expr(m.group(1), env))
        m = re.match(r'^Literal::usize_unsuffixed\s*\((.*)\)$', s, re.S)
        if m:
            return str(self.eval_expr(m.group(1), env))
        if re.match(r'^xxh3_128\s*\(', s):
            return 'HASH'
        if re.match(r'^Vec(::<[^>]*>)?::new\(\)$', s):
            return []
        if s.startswith('{') and rs.match_close(rs.mask(s), 0) == len(s) - 1:
            return self.eval_block(0, len(s) - 1, dict(env), '<block>', s, rs.mask(s))
        if re.match(r'^if\b', s):
            blk = '{' + s + '}'
            return self.eval_block(0, len(blk) - 1, dict(env), '<if>', blk, rs.mask(blk))
        m = re.match(r'^(?:move\s+)?\|([^|]*)\|(.*)$', s, re.S)
        if m:
            # a closure value: its parameters, its body text and the environment it captures
            names = [re.sub(r':.*$', '', v, flags=re.S).strip().lstrip('&').strip() for v in m.group(1).split(',') if v.strip()]
            return Closure(names, m.group(2), env)
        m = re.match(r'^(\w+)\s*\(', s)
        if m and (m.group(1) in self.fns or isinstance(env.get(m.group(1)), Closure)) \
                and rs.match_close(rs.mask(s), m.end() - 1) == len(s) - 1:
            args = [self.eval_expr(re.sub(r'^\s*&\s*(mut\s+)?', '', a), env) for a in rs.split_top_commas(s[m.end():-1]) if a.strip()]
            callee = env.get(m.group(1))
            if isinstance(callee, Closure):
                if len(args) != len(callee.names):
                    raise ExtractError('R-quote: closure %s called with %d arguments' % (m.group(1), len(args)))
                return self.eval_expr(callee.body, dict(callee.env, **dict(zip(callee.names, args))))
            return self.eval_fn(m.group(1), args)
        m = re.match(r'^\(\s*0\s*\.\.\s*(.+?)\)$', s, re.S)
        if m and rs.match_close(rs.mask(s), 0) == len(s) - 1:
            return list(range(int(self.eval_expr(m.group(1), env))))
        if re.match(r'^\d+$', s):
            return int(s)
        # integer arithmetic (u8 / usize values of the schema): `A op B` at top level, left-associative
        ms = rs.mask(s)
        depth = 0
        for i in range(len(ms) - 1, 0, -1):
            ch = ms[i]
            if ch in rs.CLOSE:
                depth += 1
            elif ch in rs.OPEN:
                depth -= 1
            elif depth == 0 and ch in '+-*^%' and ms[i - 1] not in '+-*^%=<>|&.(' and i + 1 < len(ms) and ms[i + 1] not in '=>':
                lhs, rhs = s[:i].strip(), s[i + 1:].strip()
                if lhs and rhs and not lhs.endswith('..'):
                    a, b = self.eval_expr(lhs, env), self.eval_expr(rhs, env)
                    if isinstance(a, int) and isinstance(b, int) and not isinstance(a, bool):
                        return {'+': a + b, '-': a - b, '*': a * b, '^': a ^ b, '%': a % b if b else 0}[ch]
                    raise ExtractError('R-quote: arithmetic on non-integers in %r' % s[:80])
        parts = self.split_method_chain(s)
        if len(parts) > 1 or re.match(r'^&?\w+$', parts[0]):
            return self.eval_chain(parts, env, s)
        raise ExtractError('R-quote: expression form not interpreted: %r' % s[:120])

    def fmt(self, f, args):
        out, k = '', 0
        for piece in re.split(r'(\{\})', f):
            if piece == '{}':
                out += str(args[k])
                k += 1
            else:
                out += piece
        if k != len(args):
            raise ExtractError('R-quote: format string %r / %d args' % (f, len(args)))
        return out

    def lookup(self, name, env):
        name = name.lstrip('&').strip()
        if name not in env:
            raise ExtractError('R-quote: unknown local %r' % name)
        return env[name]

    def eval_chain(self, parts, env, whole):
        head = parts[0]
        if head.startswith('('):
            val = self.eval_expr(head, env)
        else:
            val = self.lookup(head, env)
        i = 1
        while i < len(parts):
            p = parts[i]
            if re.match(r'^\w+$', p):                      # field
                if not isinstance(val, dict) or p not in val:
                    raise ExtractError('R-quote: no field %s in %r' % (p, whole[:80]))
                val = val[p]
            elif p in ('iter()', 'into_iter()', 'collect::<Vec<_>>()', 'clone()', 'as_bytes()'):
                pass
            elif p == 'len()':
                val = len(val)
            elif p == 'to_string()':
                val = str(val)
            elif p == 'to_base64()':
                val = '"WORLD_DATA"'
            elif p == 'is_empty()':
                val = len(val) == 0
            elif isinstance(val, int) and re.match(r'^(saturating_sub|saturating_add|wrapping_add|wrapping_sub|min|max|pow)\s*\((.*)\)$', p, re.S):
                mm = re.match(r'^(\w+)\s*\((.*)\)$', p, re.S)
                arg = int(self.eval_expr(mm.group(2), env))
                op = mm.group(1)
                val = {'saturating_sub': max(val - arg, 0), 'saturating_add': val + arg, 'wrapping_add': val + arg, 'wrapping_sub': val - arg,
                       'min': min(val, arg), 'max': max(val, arg), 'pow': val ** arg}[op]
            else:
                m = re.match(r'^map\s*\(\s*\|\s*(\w+)\s*\|(.*)\)$', p, re.S)
                if not m:
                    raise ExtractError('R-quote: method %r not interpreted in %r' % (p[:60], whole[:80]))
                var, body = m.group(1), m.group(2)
                val = [self.eval_expr(body, dict(env, **{var: x})) for x in val]
            i += 1
        return val

    # ------------------------------------------------------------------ function evaluation
    def eval_fn(self, name, args):
        if name in self.drop_fns:
            self.log.rule('R-dropitem', '%s: %s' % (name, self.drop_fns[name]))
            return ''
        f = self.fns.get(name)
        if f is None:
            raise ExtractError('R-quote: generator fn %s not found in %s' % (name, self.rel))
        params = [p for p in rs.split_top_commas(strip_markers(self.raw[f.params_open + 1:f.params_close])) if p.strip()]
        pnames = [re.match(r'\s*(?:mut\s+)?(\w+)\s*:', p).group(1) for p in params]
        env = dict(zip(pnames, list(args) + [None] * (len(pnames) - len(args))))
        return self.eval_block(f.body_open, f.body_close, env, name)

    def eval_block(self, bopen, bclose, env, fname, raw=None, msk=None):
        """statements between the braces at bopen/bclose (of self.raw, or of the given text: a closure body)"""
        if raw is None:
            raw, msk = self.raw, self.msk
        pos = bopen + 1
        while True:
            while pos < bclose and msk[pos].isspace():
                pos += 1
            if pos >= bclose:
                raise _NoTail('R-quote: %s has no tail expression' % fname)
            if msk.startswith('#[', pos):
                pos = rs.match_close(msk, pos + 1) + 1
                continue
            m = re.compile(r'let\s+(mut\s+)?(\w+)\s*=').match(msk, pos)
            if m:
                end = rs.find_depth0(msk, m.end(), ';', bclose)
                if end < 0:
                    raise ExtractError('R-quote: unterminated let in %s' % fname)
                name = m.group(2)
                try:
                    val = self.eval_expr(raw[m.end():end], env)
                    env[name] = list(val) if isinstance(val, list) else val
                except ExtractError as e:
                    env[name] = e          # only an error if the hole is used
                pos = end + 1
                continue
            m = re.compile(r'if\s+cfg!\s*\(').match(msk, pos)
            if m:
                pclose = rs.match_close(msk, m.end() - 1)
                val = eval_cfg_pred(strip_markers(raw[m.end():pclose]), self.cfg)
                tb = rs.find_depth0(msk, pclose + 1, '{', bclose)
                tclose = rs.match_close(msk, tb)
                em = re.compile(r'\s*else\s*\{').match(msk, tclose + 1)
                if not em:
                    raise ExtractError('R-quote: if cfg! without else in %s' % fname)
                eb = em.end() - 1
                eclose = rs.match_close(msk, eb)
                self.log.rule('R-cfg', 'cfg!(%s) = %s in %s' % (strip_markers(raw[m.end():pclose]).strip(), val, fname))
                if val:
                    return self.eval_block(tb, tclose, dict(env), fname, raw, msk)
                return self.eval_block(eb, eclose, dict(env), fname, raw, msk)
            m = re.compile(r'quote!\s*\(').match(msk, pos)
            if m:
                close = rs.match_close(msk, m.end() - 1)
                if msk[close + 1:bclose].strip() != '':
                    raise ExtractError('R-quote: text after the tail quote! in %s' % fname)
                out = self.instantiate(raw[m.end():close], env)
                self.envs.setdefault(fname, []).append(dict(env))
                self.log.rule('R-quote', '%s(%s)' % (fname, ', '.join(str(v.get('name')) for v in env.values() if isinstance(v, dict))))
                return out
            # plain statements (accumulators): `if COND { .. }`, `for _ in 0..E { .. }`, `v.push(E);`
            m = re.compile(r'if\s+').match(msk, pos)
            if m:
                b = rs.find_depth0(msk, m.end(), '{', bclose)
                cond = self.eval_cond(raw[m.end():b], env)
                bc = rs.match_close(msk, b)
                em = re.compile(r'\s*else\s*\{').match(msk, bc + 1)
                if em:
                    eb = em.end() - 1
                    ec = rs.match_close(msk, eb)
                    if msk[ec + 1:bclose].strip() == '':
                        # `if C { A } else { B }` in tail position: the value of the block
                        return self.eval_block(b, bc, dict(env), fname, raw, msk) if cond else self.eval_block(eb, ec, dict(env), fname, raw, msk)
                    if cond:
                        self.exec_stmts(b, bc, env, fname, raw, msk)
                    else:
                        self.exec_stmts(eb, ec, env, fname, raw, msk)
                    pos = ec + 1
                    continue
                if cond:
                    self.exec_stmts(b, bc, env, fname, raw, msk)
                pos = bc + 1
                continue
            m = re.compile(r'for\s+(\w+)\s+in\s+').match(msk, pos)
            if m:
                b = rs.find_depth0(msk, m.end(), '{', bclose)
                rng = self.eval_expr('(' + strip_markers(raw[m.end():b]).strip() + ')', env)
                bc = rs.match_close(msk, b)
                for x in rng:
                    env[m.group(1)] = x
                    self.exec_stmts(b, bc, env, fname, raw, msk)
                pos = bc + 1
                continue
            m = re.compile(r'(\w+)\s*\.\s*(sort_by_key|sort_unstable_by_key)\s*\(\s*\|\s*(\w+)\s*\|').match(msk, pos)
            if m:
                paren = msk.index('(', m.start())
                close = rs.match_close(msk, paren)
                v = env.get(m.group(1))
                if not isinstance(v, list):
                    raise ExtractError('R-quote: sort on a non-list local %s in %s' % (m.group(1), fname))
                body = raw[m.end():close]
                v.sort(key=lambda x: self.eval_expr(body, dict(env, **{m.group(3): x})))     # stable, like sort_by_key
                pos = msk.index(';', close) + 1
                continue
            m = re.compile(r'(\w+)\s*\.\s*(reverse)\s*\(\s*\)\s*;').match(msk, pos)
            if m:
                v = env.get(m.group(1))
                if not isinstance(v, list):
                    raise ExtractError('R-quote: reverse on a non-list local %s in %s' % (m.group(1), fname))
                v.reverse()
                pos = m.end()
                continue
            m = re.compile(r'(\w+)\s*\.\s*push\s*\(').match(msk, pos)
            if m:
                close = rs.match_close(msk, m.end() - 1)
                v = env.get(m.group(1))
                if not isinstance(v, list):
                    raise ExtractError('R-quote: push on a non-list local %s in %s' % (m.group(1), fname))
                v.append(self.eval_expr(raw[m.end():close], env))
                pos = msk.index(';', close) + 1
                continue
            if rs.find_depth0(msk, pos, ';', bclose) < 0:
                # a tail expression other than quote!: the value of a helper function of the generator
                return self.eval_expr(raw[pos:bclose], env)
            raise ExtractError('R-quote: statement form not interpreted in %s: %r' % (fname, strip_markers(raw[pos:pos + 60])))

    def exec_stmts(self, bopen, bclose, env, fname, raw=None, msk=None):
        """a block of plain statements (no tail expression): reuse eval_block's statement forms"""
        try:
            self.eval_block(bopen, bclose, env, fname, raw, msk)
        except _NoTail:
            return
        raise ExtractError('R-quote: unexpected tail expression in a statement block of %s' % fname)

    def eval_cond(self, text, env):
        t = strip_markers(text).strip()
        m = re.match(r'^(.*?)\s*==\s*(true|false)$', t, re.S)
        if m:
            return bool(self.eval_expr(m.group(1), env)) == (m.group(2) == 'true')
        mt = rs.mask(t)
        depth = 0
        for i, ch in enumerate(mt):
            if ch in rs.OPEN:
                depth += 1
            elif ch in rs.CLOSE:
                depth -= 1
            elif depth == 0:
                for op in ('==', '!=', '<=', '>=', '<', '>'):
                    if mt.startswith(op, i) and mt[i - 1:i] not in ('-', '=', '<', '>') and mt[i + len(op):i + len(op) + 1] not in ('=', '<', '>'):
                        a, b = self.eval_expr(t[:i], env), self.eval_expr(t[i + len(op):], env)
                        if isinstance(a, int) and isinstance(b, int):
                            return {'==': a == b, '!=': a != b, '<=': a <= b, '>=': a >= b, '<': a < b, '>': a > b}[op]
                        raise ExtractError('R-quote: comparison of non-integers in %r' % t[:80])
        return bool(self.eval_expr(t, env))

    # ------------------------------------------------------------------ quote! instantiation
    def instantiate(self, text, env):
        return instantiate(text, env)


def instantiate(text, env):
        """text: the argument of quote!( .. ), with markers."""
        # doc attributes built from strings are dropped first (they are not code)
        text = re.sub(r'#\(\s*#\[doc\s*=\s*#\w+\]\s*\)\s*\*', '', text)
        out = []
        msk = rs.mask(text)
        i, n = 0, len(text)
        while i < n:
            if msk[i] == '#' and i + 1 < n and msk[i + 1] == '(':
                close = rs.match_close(msk, i + 1)
                j = close + 1
                sep = ''
                if j < n and msk[j] != '*':
                    sep = text[j]
                    j += 1
                if j >= n or msk[j] != '*':
                    raise ExtractError('R-quote: malformed repetition near %r' % strip_markers(text[i:i + 60]))
                body = text[i + 2:close]
                names = set(re.findall(r'#(\w+)', rs.mask(body)))
                its = [v for v in names if isinstance(env.get(v), list)]
                if not its:
                    raise ExtractError('R-quote: repetition without an iterable: %r' % strip_markers(body[:60]))
                lens = set(len(env[v]) for v in its)
                if len(lens) != 1:
                    raise ExtractError('R-quote: repetition over iterables of different length %s' % sorted(its))
                reps = []
                for k in range(lens.pop()):
                    e2 = dict(env)
                    for v in its:
                        e2[v] = env[v][k]
                    reps.append(instantiate(body, e2))
                out.append(sep.join(reps))
                i = j + 1
                continue
            if msk[i] == '#' and i + 1 < n and (msk[i + 1].isalpha() or msk[i + 1] == '_'):
                m = re.compile(r'#(\w+)').match(msk, i)
                name = m.group(1)
                if name not in env:
                    raise ExtractError('R-quote: hole #%s has no local' % name)
                v = env[name]
                if isinstance(v, ExtractError):
                    raise v
                if isinstance(v, list):
                    raise ExtractError('R-quote: iterable #%s used outside a repetition' % name)
                out.append(str(v))
                i = m.end()
                continue
            out.append(text[i])
            i += 1
        return ''.join(out)
