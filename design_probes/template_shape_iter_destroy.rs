use vstd::prelude::*;
verus! {
pub enum EcsStepDestroy { Continue, Break, ContinueDestroy, BreakDestroy }

pub struct St { ents: Vec<u32>, d0: Vec<u64> }

pub struct Slices<'a> { pub entity: &'a [u32], pub comp_a: &'a mut [u64] }

impl St {
    pub closed spec fn e(&self) -> Seq<u32> { self.ents@ }
    pub closed spec fn d(&self) -> Seq<u64> { self.d0@ }
    pub open spec fn wf(&self) -> bool { self.e().len() == self.d().len() }
    fn len(&self) -> (r: usize) ensures r == self.e().len() { self.ents.len() }
    fn get_all_slices_mut<'a>(&'a mut self) -> (r: Slices<'a>)
        requires old(self).wf()
        ensures r.entity@ == old(self).e(), r.comp_a@ == old(self).d(),
            final(self).e() == old(self).e(), final(self).d() == final(r.comp_a)@,
            final(r.comp_a)@.len() == old(self).d().len(),
    {
        Slices { entity: self.ents.as_slice(), comp_a: self.d0.as_mut_slice() }
    }
    fn destroy(&mut self, e: u32)
        requires old(self).wf()
        ensures final(self).wf(), final(self).e().len() <= old(self).e().len()
    { }
}

#[verifier::external_body]
fn decide(e: &u32, c: &mut u64) -> EcsStepDestroy { EcsStepDestroy::Continue }

fn run(archetype: &mut St)
    requires old(archetype).wf()
{
        {
            let len = archetype.len();
            for idx in it: (0..len).rev()
                invariant archetype.wf(), archetype.e().len() >= len - it.index@,
            {
                let slices = archetype.get_all_slices_mut();
                match decide(&slices.entity[idx], &mut slices.comp_a[idx]) {
                    EcsStepDestroy::Continue => {},
                    EcsStepDestroy::Break => { return; },
                    EcsStepDestroy::ContinueDestroy => {
                        let entity = slices.entity[idx];
                        archetype.destroy(entity);
                    },
                    EcsStepDestroy::BreakDestroy => {
                        let entity = slices.entity[idx];
                        archetype.destroy(entity);
                        return;
                    },
                }
            }
        }
}
}
fn main() {}
