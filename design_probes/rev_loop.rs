use vstd::prelude::*;
verus! {
fn f(len: usize) -> (r: usize)
    requires len < 1000
    ensures r == len
{
    let mut c: usize = 0;
    for idx in it: (0..len).rev()
        invariant c == it.index@, c <= len,
    {
        assert(idx == len - 1 - c);
        c += 1;
    }
    c
}
}
fn main() {}
