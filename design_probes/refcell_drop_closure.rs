use vstd::prelude::*;
use std::cell::{Ref, RefCell};
verus! {
#[verifier::accept_recursive_types(T)]
#[verifier::external_type_specification]
#[verifier::external_body]
pub struct ExRefCell<T: ?Sized>(RefCell<T>);

#[verifier::accept_recursive_types(T)]
#[verifier::external_type_specification]
#[verifier::external_body]
pub struct ExRef<'a, T: ?Sized>(Ref<'a, T>);

pub uninterp spec fn rc_val<T: ?Sized>(c: &RefCell<T>) -> &T;
pub uninterp spec fn ref_val<'a, T: ?Sized>(c: &Ref<'a, T>) -> &'a T;

pub assume_specification<'b, T: ?Sized> [RefCell::<T>::borrow] (c: &'b RefCell<T>) -> (r: Ref<'b, T>)
    ensures ref_val(&r) == rc_val(c);

pub assume_specification<'b, 'c, T: ?Sized> [<Ref<'b, T> as std::ops::Deref>::deref] (c: &'c Ref<'b, T>) -> (r: &'c T)
    ensures r == ref_val(c);

pub struct P { pub x: u32 }
impl P { fn get(&self) -> (r: u32) ensures r == self.x { self.x } }

fn f(c: &RefCell<P>) -> (r: u32)
    ensures r == rc_val(c).x
{
    let b = c.borrow();
    b.get()
}

pub struct S { v: Vec<u32>, len: usize }
impl Drop for S {
    fn drop(&mut self)
        opens_invariants none
        no_unwind
    {
        self.len = 0;
    }
}

fn g(o: Option<usize>, v: &mut Vec<u32>) -> Option<u32>
    requires o is Some ==> o->0 < old(v)@.len()
{
    o.map(|index| -> (r: u32) requires index < v@.len() { v[index] })
}
}
fn main() {}
