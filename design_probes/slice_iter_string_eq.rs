use vstd::prelude::*;
verus! {
pub struct C { pub name: String }
fn contains(cs: &Vec<C>, name: &String) -> (r: bool)
    ensures r == exists|i: int| 0 <= i < cs@.len() && cs@[i].name@ == name@
{
    for component in it: cs.iter()
        invariant forall|i: int| 0 <= i < it.index@ ==> cs@[i].name@ != name@
    {
        if component.name == *name {
            return true;
        }
    }
    false
}
}
fn main() {}
