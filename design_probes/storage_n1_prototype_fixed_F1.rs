use vstd::prelude::*;
use std::num::NonZeroU32;
use std::mem::MaybeUninit;
use std::marker::PhantomData;
use std::cell::{Ref, RefCell, RefMut};
use std::ptr::NonNull;
use vstd::slice::SliceIndexSpec;
use std::slice::SliceIndex;

macro_rules! debug_checked_assume {
    ($ex:expr) => {
        if (!$ex) {
            debug_assert!(false);
            ::std::hint::unreachable_unchecked();
        }
    };
}

verus! {

// ---------------- trusted std specs
pub assume_specification<T> [Option::<T>::unwrap_unchecked] (o: Option<T>) -> (r: T)
    requires o.is_some(),
    ensures r == o.unwrap();

pub assume_specification [NonZeroU32::checked_add] (a: NonZeroU32, b: u32) -> (r: Option<NonZeroU32>)
    ensures
        a@ + b <= u32::MAX ==> r.is_some() && r.unwrap()@ == a@ + b,
        a@ + b > u32::MAX ==> r.is_none();

#[verifier::external_body]
pub fn gecs_panic() -> ! 
{ panic!() }

// ---------------- index.rs
pub const ARCHETYPE_ID_BITS: u32 = u8::BITS;
pub const MAX_DATA_CAPACITY: u32 = 1 << (u32::BITS - ARCHETYPE_ID_BITS);
pub exec const MAX_DATA_INDEX: u32
    ensures MAX_DATA_INDEX == 0xff_ffffu32
{ assert(MAX_DATA_CAPACITY == 0x100_0000u32) by (compute_only); MAX_DATA_CAPACITY - 1 }

pub broadcast proof fn lemma_max_cap()
    ensures #[trigger] MAX_DATA_CAPACITY == 0x100_0000u32,
{
    assert(MAX_DATA_CAPACITY == 0x100_0000u32) by (compute_only);
}

#[derive(Clone, Copy, Debug, Eq, Ord, PartialEq, PartialOrd)]
pub struct TrimmedIndex(u32);

impl TrimmedIndex {
    #[verifier::type_invariant]
    pub closed spec fn inv(self) -> bool { self.0 < 0x100_0000 }
    pub closed spec fn v(self) -> nat { self.0 as nat }

    pub const fn zero() -> (r: Self)
        ensures r.v() == 0
    {
        Self(0)
    }
    pub const fn new_u32(index: u32) -> (r: Option<Self>)
        ensures index < 0x100_0000 ==> r.is_some() && r.unwrap().v() == index,
                index >= 0x100_0000 ==> r.is_none(),
    {
        broadcast use lemma_max_cap;
        match index < MAX_DATA_CAPACITY {
            true => Some(Self(index)),
            false => None,
        }
    }
    pub const fn new_usize(index: usize) -> (r: Option<Self>)
        ensures index < 0x100_0000 ==> r.is_some() && r.unwrap().v() == index,
                index >= 0x100_0000 ==> r.is_none(),
    {
        broadcast use lemma_max_cap;
        match index < MAX_DATA_CAPACITY as usize {
            true => Some(Self(index as u32)),
            false => None,
        }
    }
}

impl vstd::std_specs::convert::FromSpecImpl<TrimmedIndex> for u32 {
    open spec fn obeys_from_spec() -> bool { true }
    open spec fn from_spec(v: TrimmedIndex) -> u32 { v.v() as u32 }
}

impl From<TrimmedIndex> for u32 {
    fn from(value: TrimmedIndex) -> Self {
        proof { use_type_invariant(value); }
        broadcast use lemma_max_cap;
        // SAFETY: This is verified at creation
        unsafe { debug_checked_assume!(value.0 < MAX_DATA_CAPACITY) };
        value.0
    }
}

impl vstd::std_specs::convert::FromSpecImpl<TrimmedIndex> for usize {
    open spec fn obeys_from_spec() -> bool { true }
    open spec fn from_spec(v: TrimmedIndex) -> usize { v.v() as usize }
}

impl From<TrimmedIndex> for usize {
    fn from(value: TrimmedIndex) -> Self {
        proof { use_type_invariant(value); }
        broadcast use lemma_max_cap;
        // SAFETY: This is verified at creation
        unsafe { debug_checked_assume!(value.0 < MAX_DATA_CAPACITY) };
        value.0.try_into().unwrap()
    }
}


// ---------------- version.rs
// NonZeroU32::MIN is unsupported by Verus: rewritten to an exec const with ensures (trusted: value 1)
#[verifier::external_body]
pub const fn nonzero_min() -> (r: NonZeroU32) ensures r@ == 1 { NonZeroU32::MIN }

#[verifier::external_body]
pub fn gecs_expect<T>(o: Option<T>, msg: &str) -> (r: T)
    ensures o.is_some(), r == o.unwrap()
{ o.expect(msg) }

#[repr(transparent)]
#[derive(Clone, Copy, Debug, Eq, PartialEq)]
pub struct SlotVersion {
    version: NonZeroU32,
}

#[repr(transparent)]
#[derive(Clone, Copy, Debug, Eq, PartialEq)]
pub struct ArchetypeVersion {
    version: NonZeroU32,
}

impl SlotVersion {
    pub closed spec fn v(self) -> nat { self.version@ as nat }

    #[inline(always)]
    pub(crate) fn new(version: NonZeroU32) -> (r: Self)
        ensures r.v() == version@
    {
        Self {
            version, // Direct set
        }
    }

    #[inline(always)]
    pub(crate) fn start() -> (r: Self)
        ensures r.v() == 1
    {
        Self {
            version: nonzero_min(),
        }
    }

    #[inline(always)]
    pub(crate) fn get(&self) -> (r: NonZeroU32)
        ensures r@ == self.v()
    {
        self.version
    }

    #[inline(always)]
    pub(crate) fn next(&self) -> (r: SlotVersion)
        ensures r.v() == self.v() + 1, self.v() < u32::MAX
    {
        SlotVersion {
            version: gecs_expect(self.version.checked_add(1), "slot version overflow"),
        }
    }
}

impl vstd::std_specs::cmp::PartialEqSpecImpl for SlotVersion {
    open spec fn obeys_eq_spec() -> bool { true }
    open spec fn eq_spec(&self, other: &SlotVersion) -> bool { self.v() == other.v() }
}
impl vstd::std_specs::cmp::PartialEqSpecImpl for ArchetypeVersion {
    open spec fn obeys_eq_spec() -> bool { true }
    open spec fn eq_spec(&self, other: &ArchetypeVersion) -> bool { self.v() == other.v() }
}
// ---------------- slot.rs
const FREE_BIT: u32 = 1 << 31;
exec const FREE_LIST_END: u32
    ensures FREE_LIST_END == 0xffff_ffffu32
{ assert(FREE_BIT == 0x8000_0000u32) by (compute_only);
  assert((0x7fff_ffffu32 | 0x8000_0000u32) == 0xffff_ffffu32) by (bit_vector);
  (FREE_BIT - 1) | FREE_BIT }

broadcast proof fn lemma_free_bit()
    ensures #[trigger] FREE_BIT == 0x8000_0000u32,
{
    assert(FREE_BIT == 0x8000_0000u32) by (compute_only);
}

#[derive(Clone, Copy, PartialEq, Eq, PartialOrd, Ord)]
pub(crate) struct SlotIndex(u32);

impl SlotIndex {
    #[verifier::type_invariant]
    pub closed spec fn inv(self) -> bool {
        self.0 < 0x100_0000 || (0x8000_0000 <= self.0 < 0x8100_0000) || self.0 == 0xffff_ffff
    }
    pub closed spec fn free(self) -> bool { self.0 >= 0x8000_0000 }
    pub closed spec fn end(self) -> bool { self.0 == 0xffff_ffff }
    /// data index (when !free) or next-free slot index (when free && !end)
    pub closed spec fn idx(self) -> nat { if self.0 >= 0x8000_0000 { (self.0 - 0x8000_0000) as nat } else { self.0 as nat } }

    #[inline(always)]
    pub(crate) fn new_data(index: TrimmedIndex) -> (r: Self)
        ensures !r.free(), !r.end(), r.idx() == index.v()
    {
        proof { use_type_invariant(index); }
        Self(Into::<u32>::into(index))
    }

    #[inline(always)]
    pub(crate) fn new_free(index: TrimmedIndex) -> (r: Self)
        ensures r.free(), !r.end(), r.idx() == index.v()
    {
        // Make sure that there is room in the index for the free bit.
        proof { use_type_invariant(index); }
        broadcast use lemma_free_bit;
        let x = Into::<u32>::into(index);
        assert(x < 0x100_0000u32 ==> (x | 0x8000_0000u32) == x + 0x8000_0000u32) by (bit_vector);
        Self(x | FREE_BIT)
    }

    #[inline(always)]
    pub(crate) const fn free_end() -> (r: Self)
        ensures r.free(), r.end()
    {
        Self(FREE_LIST_END)
    }

    #[inline(always)]
    pub(crate) const fn is_free(&self) -> (r: bool)
        ensures r == self.free()
    {
        broadcast use lemma_free_bit;
        let x = self.0;
        assert(((0x8000_0000u32 & x) != 0) == (x >= 0x8000_0000u32)) by (bit_vector);
        (FREE_BIT & self.0) != 0
    }

    #[inline(always)]
    pub(crate) const fn is_free_end(&self) -> (r: bool)
        ensures r == self.end()
    {
        self.0 == FREE_LIST_END
    }

    #[inline(always)]
    pub(crate) fn index_data(&self) -> (r: Option<TrimmedIndex>)
        requires !self.free()
        ensures r.is_some(), r.unwrap().v() == self.idx()
    {
        proof { use_type_invariant(self); }
        debug_assert!(self.is_free() == false);
        match self.is_free_end() {
            true => None,
            // SAFETY: If this isn't free, then we know it must be a valid `TrimmedIndex`
            false => unsafe { Some(TrimmedIndex::new_u32(self.0).unwrap_unchecked()) },
        }
    }

    #[inline(always)]
    pub(crate) fn index_free(&self) -> (r: Option<TrimmedIndex>)
        requires self.free()
        ensures self.end() ==> r.is_none(),
                !self.end() ==> r.is_some() && r.unwrap().v() == self.idx()
    {
        proof { use_type_invariant(self); }
        broadcast use lemma_free_bit;
        debug_assert!(self.is_free());
        let x = self.0;
        assert(x >= 0x8000_0000u32 ==> (x & !0x8000_0000u32) == x - 0x8000_0000u32) by (bit_vector);
        match self.is_free_end() {
            true => None,
            // SAFETY: If this isn't the free end, then we know it must be a valid `TrimmedIndex`
            false => unsafe { Some(TrimmedIndex::new_u32(self.0 & !FREE_BIT).unwrap_unchecked()) },
        }
    }
}

#[derive(Clone, Copy)]
pub struct Slot {
    index: SlotIndex,
    version: SlotVersion,
}

impl Slot {
    pub closed spec fn sindex(self) -> SlotIndex { self.index }
    pub closed spec fn sversion(self) -> SlotVersion { self.version }

    #[inline(always)]
    pub(crate) fn new_free(next_free: SlotIndex) -> (r: Self)
        requires next_free.free()
        ensures r.sindex() == next_free, r.sversion().v() == 1
    {
        debug_assert!(next_free.is_free());

        Self {
            index: next_free,
            version: SlotVersion::start(),
        }
    }

    #[inline(always)]
    pub(crate) fn index(&self) -> (r: SlotIndex)
        ensures r == self.sindex()
    {
        self.index
    }

    #[inline(always)]
    pub(crate) fn is_free(&self) -> (r: bool)
        ensures r == self.sindex().free()
    {
        self.index.is_free()
    }

    #[inline(always)]
    pub(crate) fn version(&self) -> (r: SlotVersion)
        ensures r == self.sversion()
    {
        self.version
    }

    #[inline(always)]
    pub(crate) fn assign(&mut self, index_data: TrimmedIndex)
        ensures !final(self).sindex().free(), final(self).sindex().idx() == index_data.v(),
                final(self).sversion() == old(self).sversion()
    {
        self.index = SlotIndex::new_data(index_data);

        // NOTE: We increment the version on release, not assignment.
    }

    #[inline(always)]
    pub(crate) fn release(&mut self, index_next_free: SlotIndex, next_version: SlotVersion)
        requires !old(self).sindex().free()
        ensures final(self).sindex() == index_next_free,
                final(self).sversion() == next_version
    {
        debug_assert!(self.is_free() == false);
        self.index = index_next_free;
        self.version = next_version;
    }
}


// ---------------- more trusted std specs
pub assume_specification<T, I: SliceIndex<[T]>> [<[T]>::get_unchecked::<I>] (s: &[T], i: I) -> (r: &<I as SliceIndex<[T]>>::Output)
    requires i.in_bounds(s),
    ensures i.index_postcondition(s, r);

pub assume_specification<T, I: SliceIndex<[T]>> [<[T]>::get_unchecked_mut::<I>] (s: &mut [T], i: I) -> (r: &mut <I as SliceIndex<[T]>>::Output)
    requires i.in_bounds(old(s)),
    ensures i.index_mut_postcondition(old(s), final(s), r, final(r));

#[verifier::accept_recursive_types(T)]
#[verifier::external_type_specification]
#[verifier::external_body]
pub struct ExRefCell<T: ?Sized>(RefCell<T>);

pub uninterp spec fn rc_val<T: ?Sized>(c: &RefCell<T>) -> &T;

pub assume_specification<T> [RefCell::<T>::new] (v: T) -> (r: RefCell<T>)
    ensures *rc_val(&r) == v;

pub assume_specification<T: ?Sized> [RefCell::<T>::get_mut] (c: &mut RefCell<T>) -> (r: &mut T)
    ensures &*r == rc_val(old(c)), rc_val(final(c)) == &*final(r);

// ---------------- entity.rs (subset)
pub type ArchetypeId = u8;

pub trait Archetype: Sized {
    const ARCHETYPE_ID: ArchetypeId;
    type Components;
}

#[derive(Clone, Copy, Eq, PartialEq)]
pub struct EntityAny {
    key: u32, // [ slot_index (u24) | archetype_id (u8) ]
    version: SlotVersion,
}

#[repr(transparent)]
pub struct Entity<A: Archetype> {
    inner: EntityAny,
    _type: PhantomData<A>,
}

impl<A: Archetype> Clone for Entity<A> {
    #[inline(always)]
    fn clone(&self) -> (r: Entity<A>)
        ensures r == *self
    {
        *self
    }
}
impl<A: Archetype> Copy for Entity<A> {}

impl EntityAny {
    pub closed spec fn key(self) -> u32 { self.key }
    pub closed spec fn ver(self) -> nat { self.version.v() }
    pub open spec fn sidx(self) -> nat { (self.key() >> 8) as nat }
    pub open spec fn aid(self) -> u8 { (self.key() & 0xff) as u8 }

    #[inline(always)]
    pub(crate) fn new(
        slot_index: TrimmedIndex, //.
        archetype_id: ArchetypeId,
        version: SlotVersion,
    ) -> (r: Self)
        ensures r.sidx() == slot_index.v(), r.aid() == archetype_id, r.ver() == version.v()
    {
        proof { use_type_invariant(slot_index); }
        let archetype_id: u32 = archetype_id.into();
        let slot_index: u32 = slot_index.into();
        assert(slot_index < 0x100_0000u32 && archetype_id < 0x100u32 ==> 
            (((slot_index << 8) | archetype_id) >> 8) == slot_index && (((slot_index << 8) | archetype_id) & 0xff) == archetype_id) by (bit_vector);
        let key = (slot_index << ARCHETYPE_ID_BITS) | archetype_id;
        Self { key, version }
    }

    #[inline(always)]
    pub(crate) const fn version(&self) -> (r: SlotVersion)
        ensures r.v() == self.ver()
    {
        self.version
    }

    #[inline(always)]
    pub(crate) fn slot_index(&self) -> (r: TrimmedIndex)
        ensures r.v() == self.sidx()
    {
        let k = self.key;
        assert((k >> 8) < 0x100_0000u32) by (bit_vector);
        unsafe {
            // SAFETY: We know the remaining data can fit in a DataIndex
            debug_assert!(self.key >> ARCHETYPE_ID_BITS <= MAX_DATA_INDEX);
            TrimmedIndex::new_u32(self.key >> ARCHETYPE_ID_BITS).unwrap_unchecked()
        }
    }
}

impl<A: Archetype> Entity<A> {
    pub closed spec fn any(self) -> EntityAny { self.inner }
    pub open spec fn sidx(self) -> nat { self.any().sidx() }
    pub open spec fn ver(self) -> nat { self.any().ver() }
    pub open spec fn aid(self) -> u8 { self.any().aid() }

    #[inline(always)]
    pub(crate) fn new(
        slot_index: TrimmedIndex, //.
        version: SlotVersion,
    ) -> (r: Self)
        ensures r.sidx() == slot_index.v(), r.aid() == A::ARCHETYPE_ID, r.ver() == version.v()
    {
        Self {
            inner: EntityAny::new(slot_index, A::ARCHETYPE_ID, version),
            _type: PhantomData,
        }
    }

    #[inline(always)]
    pub(crate) fn version(&self) -> (r: SlotVersion)
        ensures r.v() == self.ver()
    {
        self.inner.version()
    }

    #[inline(always)]
    pub(crate) fn slot_index(&self) -> (r: TrimmedIndex)
        ensures r.v() == self.sidx()
    {
        self.inner.slot_index()
    }
}


// ---------------- MaybeUninit (trusted)
pub uninterp spec fn mu_val<T>(m: MaybeUninit<T>) -> Option<T>;

pub assume_specification<T> [MaybeUninit::<T>::write] (m: &mut MaybeUninit<T>, val: T) -> (r: &mut T)
    ensures mu_val(*final(m)) == Some(*final(r)), *r == val;

// ---------------- slot.rs: populate_free_list
pub open spec fn mu_seq<T>(s: Seq<MaybeUninit<T>>) -> Seq<Option<T>> {
    Seq::new(s.len(), |i: int| mu_val(s[i]))
}

impl Slot {
    pub(crate) fn populate_free_list(
        start: TrimmedIndex, // Index of where the unset section of the slot array begins
        slots: &mut [MaybeUninit<Slot>], // Complete slot array, including old slots
    ) -> (r: SlotIndex)
        requires
            old(slots)@.len() <= 0x100_0000,
            old(slots)@.len() > 0 ==> start.v() < old(slots)@.len(),
        ensures
            final(slots)@.len() == old(slots)@.len(),
            forall|i: int| 0 <= i < start.v() && i < old(slots)@.len() ==> mu_val(final(slots)@[i]) == mu_val(old(slots)@[i]),
            forall|i: int| start.v() <= i < old(slots)@.len() - 1 ==> {
                &&& mu_val(#[trigger] final(slots)@[i]) is Some
                &&& mu_val(final(slots)@[i])->0.sindex().free()
                &&& !mu_val(final(slots)@[i])->0.sindex().end()
                &&& mu_val(final(slots)@[i])->0.sindex().idx() == i + 1
                &&& mu_val(final(slots)@[i])->0.sversion().v() == 1
            },
            old(slots)@.len() > 0 ==> {
                let l = old(slots)@.len() - 1;
                &&& mu_val(final(slots)@[l]) is Some
                &&& mu_val(final(slots)@[l])->0.sindex().end()
                &&& mu_val(final(slots)@[l])->0.sindex().free()
                &&& mu_val(final(slots)@[l])->0.sversion().v() == 1
                &&& r.free() && !r.end() && r.idx() == start.v()
            },
            old(slots)@.len() == 0 ==> r.free() && r.end(),
    {
        if slots.len() > 0 {
            let start_idx = start.into();
            let end_idx = slots.len() - 1;

            // Go to the second-to-last slot
            for idx in start_idx..end_idx
                invariant
                    end_idx == old(slots)@.len() - 1,
                    start_idx == start.v(),
                    start_idx <= end_idx,
                    slots@.len() == old(slots)@.len(),
                    slots@.len() <= 0x100_0000,
                    forall|i: int| 0 <= i < start_idx ==> mu_val(slots@[i]) == mu_val(old(slots)@[i]),
                    forall|i: int| start_idx <= i < idx ==> {
                        &&& mu_val(#[trigger] slots@[i]) is Some
                        &&& mu_val(slots@[i])->0.sindex().free()
                        &&& !mu_val(slots@[i])->0.sindex().end()
                        &&& mu_val(slots@[i])->0.sindex().idx() == i + 1
                        &&& mu_val(slots@[i])->0.sversion().v() == 1
                    },
            {
                let next = TrimmedIndex::new_usize(idx + 1).unwrap();
                let slot = Slot::new_free(SlotIndex::new_free(next));
                slots.get_mut(idx).unwrap().write(slot);
            }

            // Set the last slot to point off the end of the free list.
            let last_slot = Slot::new_free(SlotIndex::free_end());
            slots.get_mut(end_idx).unwrap().write(last_slot);

            // Point the free list head to the front of the list.
            SlotIndex::new_free(start)
        } else {
            // Otherwise, we have nothing, so point the free list head to the end.
            SlotIndex::free_end()
        }
    }
}


// ---------------- version.rs: ArchetypeVersion
impl ArchetypeVersion {
    pub closed spec fn v(self) -> nat { self.version@ as nat }

    #[inline(always)]
    pub(crate) fn start() -> (r: Self)
        ensures r.v() == 1
    {
        Self {
            version: nonzero_min(),
        }
    }

    #[inline(always)]
    pub(crate) fn get(&self) -> (r: NonZeroU32)
        ensures r@ == self.v()
    {
        self.version
    }

    #[inline(always)]
    pub(crate) fn next(&self) -> (r: ArchetypeVersion)
        ensures r.v() == self.v() + 1, self.v() < u32::MAX
    {
        ArchetypeVersion {
            version: gecs_expect(self.version.checked_add(1), "arch version overflow"),
        }
    }
}

// ---------------- entity.rs: direct handles
#[derive(Clone, Copy, Eq, PartialEq)]
pub struct EntityDirectAny {
    key: u32, // [ dense_index (u24) | archetype_id (u8) ]
    version: ArchetypeVersion,
}

#[repr(transparent)]
pub struct EntityDirect<A: Archetype> {
    inner: EntityDirectAny,
    _type: PhantomData<A>,
}

impl<A: Archetype> Clone for EntityDirect<A> {
    #[inline(always)]
    fn clone(&self) -> (r: EntityDirect<A>)
        ensures r == *self
    {
        *self
    }
}
impl<A: Archetype> Copy for EntityDirect<A> {}

impl EntityDirectAny {
    pub closed spec fn key(self) -> u32 { self.key }
    pub closed spec fn ver(self) -> nat { self.version.v() }
    pub open spec fn didx(self) -> nat { (self.key() >> 8) as nat }
    pub open spec fn aid(self) -> u8 { (self.key() & 0xff) as u8 }

    #[inline(always)]
    pub(crate) fn new(
        dense_index: TrimmedIndex, //.
        archetype_id: ArchetypeId,
        version: ArchetypeVersion,
    ) -> (r: Self)
        ensures r.didx() == dense_index.v(), r.aid() == archetype_id, r.ver() == version.v()
    {
        proof { use_type_invariant(dense_index); }
        let archetype_id: u32 = archetype_id.into();
        let dense_index: u32 = dense_index.into();
        assert(dense_index < 0x100_0000u32 && archetype_id < 0x100u32 ==> 
            (((dense_index << 8) | archetype_id) >> 8) == dense_index && (((dense_index << 8) | archetype_id) & 0xff) == archetype_id) by (bit_vector);
        let key = (dense_index << ARCHETYPE_ID_BITS) | archetype_id;
        Self { key, version }
    }

    #[inline(always)]
    pub(crate) const fn version(&self) -> (r: ArchetypeVersion)
        ensures r.v() == self.ver()
    {
        self.version
    }

    #[inline(always)]
    pub(crate) fn dense_index(&self) -> (r: TrimmedIndex)
        ensures r.v() == self.didx()
    {
        let k = self.key;
        assert((k >> 8) < 0x100_0000u32) by (bit_vector);
        unsafe {
            // SAFETY: We know the remaining data can fit in a DataIndex
            debug_assert!(self.key >> ARCHETYPE_ID_BITS <= MAX_DATA_INDEX);
            TrimmedIndex::new_u32(self.key >> ARCHETYPE_ID_BITS).unwrap_unchecked()
        }
    }
}

impl<A: Archetype> EntityDirect<A> {
    pub closed spec fn any(self) -> EntityDirectAny { self.inner }
    pub open spec fn didx(self) -> nat { self.any().didx() }
    pub open spec fn ver(self) -> nat { self.any().ver() }
    pub open spec fn aid(self) -> u8 { self.any().aid() }

    #[inline(always)]
    pub(crate) fn new(
        dense_index: TrimmedIndex, //.
        version: ArchetypeVersion,
    ) -> (r: Self)
        ensures r.didx() == dense_index.v(), r.aid() == A::ARCHETYPE_ID, r.ver() == version.v()
    {
        Self {
            inner: EntityDirectAny::new(dense_index, A::ARCHETYPE_ID, version),
            _type: PhantomData,
        }
    }

    #[inline(always)]
    pub(crate) fn version(&self) -> (r: ArchetypeVersion)
        ensures r.v() == self.ver()
    {
        self.inner.version()
    }

    #[inline(always)]
    pub(crate) fn dense_index(&self) -> (r: TrimmedIndex)
        ensures r.v() == self.didx()
    {
        self.inner.dense_index()
    }
}

// ---------------- storage.rs: DataPtr (ABSTRACTED: bodies are raw-pointer code, contracts assumed here, checked by Kani)
#[verifier::external_body]
#[verifier::accept_recursive_types(T)]
pub struct DataPtr<T>(NonNull<MaybeUninit<T>>);

impl<T> DataPtr<T> {
    /// Ghost view: one entry per allocated cell; Some(v) iff the cell is initialised and owned.
    pub uninterp spec fn cells(&self) -> Seq<Option<T>>;

    #[verifier::external_body]
    pub fn with_capacity(capacity: usize) -> (r: Self)
        ensures r.cells().len() == capacity, forall|i: int| 0 <= i < capacity ==> r.cells()[i] is None
    { unimplemented!() }

    #[verifier::external_body]
    pub unsafe fn raw_data(&mut self, len: usize) -> (r: &mut [MaybeUninit<T>])
        requires len <= old(self).cells().len()
        ensures r@.len() == len, final(r)@.len() == len,
            forall|i: int| 0 <= i < len ==> mu_val(r@[i]) == old(self).cells()[i],
            final(self).cells().len() == old(self).cells().len(),
            forall|i: int| 0 <= i < len ==> final(self).cells()[i] == mu_val(final(r)@[i]),
            forall|i: int| len <= i < old(self).cells().len() ==> final(self).cells()[i] == old(self).cells()[i],
    { unimplemented!() }

    #[verifier::external_body]
    pub unsafe fn grow(&mut self, old_capacity: usize, capacity: usize)
        requires capacity >= old_capacity, old(self).cells().len() == old_capacity
        ensures final(self).cells().len() == capacity,
            forall|i: int| 0 <= i < old_capacity ==> final(self).cells()[i] == old(self).cells()[i],
            forall|i: int| old_capacity <= i < capacity ==> final(self).cells()[i] is None,
    { unimplemented!() }

    #[verifier::external_body]
    unsafe fn write(&mut self, index: usize, val: T)
        requires index < old(self).cells().len(), old(self).cells()[index as int] is None
        ensures final(self).cells() == old(self).cells().update(index as int, Some(val))
    { unimplemented!() }

    #[verifier::external_body]
    unsafe fn slice(&self, len: usize) -> (r: &[T])
        requires len <= self.cells().len(), forall|i: int| 0 <= i < len ==> self.cells()[i] is Some
        ensures r@.len() == len, forall|i: int| 0 <= i < len ==> r@[i] == self.cells()[i]->0
    { unimplemented!() }

    #[verifier::external_body]
    unsafe fn slice_mut(&mut self, len: usize) -> (r: &mut [T])
        requires len <= old(self).cells().len(), forall|i: int| 0 <= i < len ==> old(self).cells()[i] is Some
        ensures r@.len() == len, forall|i: int| 0 <= i < len ==> r@[i] == old(self).cells()[i]->0,
           final(self).cells().len() == old(self).cells().len(),
           final(r)@.len() == len,
           forall|i: int| 0 <= i < len ==> final(self).cells()[i] == Some(final(r)@[i]),
           forall|i: int| len <= i < old(self).cells().len() ==> final(self).cells()[i] == old(self).cells()[i],
    { unimplemented!() }

    #[verifier::external_body]
    unsafe fn swap_remove(&mut self, index: usize, len: usize) -> (r: T)
        requires len <= old(self).cells().len(), index < len,
            forall|i: int| 0 <= i < len ==> old(self).cells()[i] is Some
        ensures r == old(self).cells()[index as int]->0,
            final(self).cells() == old(self).cells().update(index as int, old(self).cells()[len - 1]).update(len - 1, None),
    { unimplemented!() }
}

pub trait Components1<T0>: Sized {
    spec fn c0(&self) -> T0;
    fn raw_new(c0: T0) -> (r: Self)
        ensures r.c0() == c0;
    fn raw_get(self) -> (r: (T0,))
        ensures r.0 == self.c0();
}

pub struct Storage1<A: Archetype, T0> {
    version: ArchetypeVersion,
    len: usize,
    capacity: usize,
    free_head: SlotIndex,
    slots: DataPtr<Slot>, // Sparse
    // No RefCell here since we never grant mutable access externally
    entities: DataPtr<Entity<A>>,
    d0: RefCell<DataPtr<T0>>,
}

pub open spec fn free_chain(slots: Seq<Option<Slot>>, head: SlotIndex, n: nat) -> bool
    decreases n
{
    &&& head.free()
    &&& if n == 0 { head.end() } else {
        &&& !head.end()
        &&& head.idx() < slots.len()
        &&& slots[head.idx() as int] is Some
        &&& slots[head.idx() as int]->0.sindex().free()
        &&& free_chain(slots, slots[head.idx() as int]->0.sindex(), (n - 1) as nat)
    }
}

impl<A: Archetype, T0> Storage1<A, T0>
where
    A::Components: Components1<T0>,
{
    pub closed spec fn s_len(&self) -> nat { self.len as nat }
    pub closed spec fn s_cap(&self) -> nat { self.capacity as nat }
    pub closed spec fn s_ver(&self) -> nat { self.version.v() }
    pub closed spec fn s_slots(&self) -> Seq<Option<Slot>> { self.slots.cells() }
    pub closed spec fn s_ents(&self) -> Seq<Option<Entity<A>>> { self.entities.cells() }
    pub closed spec fn s_d0(&self) -> Seq<Option<T0>> { rc_val(&self.d0).cells() }
    pub closed spec fn s_head(&self) -> SlotIndex { self.free_head }

    // dense -> sparse
    pub open spec fn dense_ok(&self, i: int) -> bool {
        let cap = self.s_cap(); let slots = self.s_slots();
        let e = self.s_ents()[i]->0;
        &&& e.sidx() < cap
        &&& e.aid() == A::ARCHETYPE_ID
        &&& !slots[e.sidx() as int]->0.sindex().free()
        &&& slots[e.sidx() as int]->0.sindex().idx() == i
        &&& slots[e.sidx() as int]->0.sversion().v() == e.ver()
    }
    // sparse -> dense
    pub open spec fn sparse_ok(&self, s: int) -> bool {
        let slots = self.s_slots();
        !slots[s]->0.sindex().free() ==> {
            &&& slots[s]->0.sindex().idx() < self.s_len()
            &&& self.s_ents()[slots[s]->0.sindex().idx() as int]->0.sidx() == s
        }
    }

    pub open spec fn wf(&self) -> bool {
        let len = self.s_len(); let cap = self.s_cap();
        let slots = self.s_slots(); let ents = self.s_ents(); let d0 = self.s_d0();
        &&& len <= cap <= 0x100_0000
        &&& slots.len() == cap && ents.len() == cap && d0.len() == cap
        &&& forall|s: int| 0 <= s < cap ==> #[trigger] slots[s] is Some
        &&& forall|i: int| 0 <= i < cap ==> (#[trigger] ents[i] is Some <==> i < len)
        &&& forall|i: int| 0 <= i < cap ==> (#[trigger] d0[i] is Some <==> i < len)
        &&& forall|i: int| 0 <= i < len ==> #[trigger] self.dense_ok(i)
        &&& forall|s: int| 0 <= s < cap ==> #[trigger] self.sparse_ok(s)
        &&& free_chain(slots, self.s_head(), (cap - len) as nat)
    }

    /// abstract: is `e` the handle of a live entity, and where
    pub open spec fn live_at(&self, e: Entity<A>, i: int) -> bool {
        0 <= i < self.s_len() && self.s_ents()[i] == Some(e)
    }

    #[inline(always)]
    pub const fn len(&self) -> (r: usize)
        ensures r == self.s_len()
    {
        self.len
    }

    #[inline(always)]
    pub const fn capacity(&self) -> (r: usize)
        ensures r == self.s_cap()
    {
        self.capacity
    }

    #[inline(always)]
    pub const fn version(&self) -> (r: ArchetypeVersion)
        ensures r.v() == self.s_ver()
    {
        self.version
    }

    /// Resolves the slot index and data index for a given entity.
    /// Both indices are guaranteed to point to valid corresponding cells.
    #[inline(always)]
    fn resolve_entity(&self, entity: Entity<A>) -> (r: Option<(TrimmedIndex, TrimmedIndex)>)
        requires self.wf()
        ensures
            // C01/C03: accepted iff (slot, generation) designate a live entity; result is its position
            r is Some ==> {
                let (s, d) = r->0;
                &&& s.v() == entity.sidx()
                &&& d.v() < self.s_len()
                &&& self.s_ents()[d.v() as int]->0.sidx() == entity.sidx()
                &&& self.s_ents()[d.v() as int]->0.ver() == entity.ver()
            },
            r is None ==> forall|i: int| 0 <= i < self.s_len() ==>
                !(#[trigger] self.s_ents()[i]->0.sidx() == entity.sidx() && self.s_ents()[i]->0.ver() == entity.ver()),
    {
        debug_assert!(self.len <= self.capacity());

        // Nothing to resolve if we have nothing stored
        if self.len == 0 {
            return None;
        }

        // Get the index into the slot array from the entity.
        let slot_index = entity.slot_index();

        unsafe {
            let slot_index_usize: usize = slot_index.into();

            // NOTE: It's a little silly, but we don't actually know if this entity
            // was created by this map, so we can't assume internal consistency here.
            // We'll just have to take the small hit for bounds checking on the index.
            if slot_index_usize >= self.capacity() {
                proof { assert forall|i: int| 0 <= i < self.s_len() implies
                    !(#[trigger] self.s_ents()[i]->0.sidx() == entity.sidx() && self.s_ents()[i]->0.ver() == entity.ver()) by { assert(self.dense_ok(i)); } }
                return None;
            }

            // SAFETY: We know that the slot storage is valid up to our capacity.
            let slots = self.slots.slice(self.capacity());
            // SAFETY: We know slot_index_usize is within bounds due to the check above.
            let slot = slots.get_unchecked(slot_index_usize);

            // NOTE: For similar reasons above, a crossed-wires entity handle from another
            // world could miraculously have the correct version while pointing to a freed
            // slot. This could cause some wacky memory access, so we need to allow slots
            // to be explicitly identified as free or not. Again, this has a small cost.
            if (slot.version() != entity.version()) || slot.is_free() {
                proof { assert forall|i: int| 0 <= i < self.s_len() implies
                    !(#[trigger] self.s_ents()[i]->0.sidx() == entity.sidx() && self.s_ents()[i]->0.ver() == entity.ver()) by { assert(self.dense_ok(i)); assert(self.sparse_ok(entity.sidx() as int)); } }
                return None; // Stale entity handle, fail the lookup
            }

            // SAFETY: We know that this is not a free slot due to the check above.
            let dense_index = slot.index().index_data().unwrap_unchecked();
            proof { assert(self.sparse_ok(slot_index_usize as int)); assert(self.dense_ok(dense_index.v() as int)); }

            Some((slot_index, dense_index))
        }
    }

    #[inline(always)]
    pub fn with_capacity(capacity: usize) -> (r: Self)
        ensures r.wf(), r.s_len() == 0, r.s_cap() == capacity, r.s_ver() == 1,
                capacity <= 0x100_0000,
    {
        broadcast use lemma_max_cap;
        // Our data indices must be able to fit inside of entity handles
        if capacity > MAX_DATA_CAPACITY as usize {
            gecs_panic();
        }

        let mut slots: DataPtr<Slot> = DataPtr::with_capacity(capacity);
        // SAFETY: We just allocated the slot array with this capacity.
        let raw_data = unsafe { slots.raw_data(capacity) };
        let free_head = Slot::populate_free_list(TrimmedIndex::zero(), raw_data);
        proof { lemma_chain_init(slots.cells(), 0, free_head); }

        Self {
            version: ArchetypeVersion::start(),
            len: 0,
            capacity,
            free_head,
            slots,
            entities: DataPtr::with_capacity(capacity),
            d0: RefCell::new(DataPtr::with_capacity(capacity)),
        }
    }

    /// Force-pushes an entity's component into the storage and returns a handle.
    #[inline(always)]
    unsafe fn force_create<D: Components1<T0>>(&mut self, data: D) -> (entity: Entity<A>)
        requires old(self).wf(), old(self).s_len() < old(self).s_cap()
        ensures final(self).wf(),
            final(self).s_len() == old(self).s_len() + 1,
            final(self).s_cap() == old(self).s_cap(),
            final(self).s_ver() == old(self).s_ver(),
            // the new entity sits at dense index old len, with the given data; everything else is untouched
            final(self).s_ents() == old(self).s_ents().update(old(self).s_len() as int, Some(entity)),
            final(self).s_d0() == old(self).s_d0().update(old(self).s_len() as int, Some(data.c0())),
            entity.aid() == A::ARCHETYPE_ID,
            // C08: the handle carries the slot's current generation, and that slot was free
            entity.sidx() < old(self).s_cap(),
            old(self).s_slots()[entity.sidx() as int]->0.sindex().free(),
            entity.ver() == old(self).s_slots()[entity.sidx() as int]->0.sversion().v(),
            // slot generations never change on create
            forall|s: int| 0 <= s < old(self).s_cap() ==> (#[trigger] final(self).s_slots()[s])->0.sversion() == old(self).s_slots()[s]->0.sversion(),
    {
        unsafe {
            // SAFETY: We will never hit the the free list end if we're below capacity
            let slot_index = self.free_head.index_free().unwrap_unchecked();
            // SAFETY: We never let self.len be greater than MAX_DATA_CAPACITY.
            let dense_index = TrimmedIndex::new_usize(self.len).unwrap_unchecked();

            // SAFETY: We know that the slot storage is valid up to our capacity.
            let slots = self.slots.slice_mut(self.capacity());
            // SAFETY: We know this is not the end of the free list, and we know that
            // a free list slot index can never be assigned to an out of bounds value.
            let slot = slots.get_unchecked_mut(Into::<usize>::into(slot_index));

            // NOTE: Do not change the following order of operations!
            self.free_head = slot.index();
            slot.assign(dense_index);
            let entity = Entity::new(slot_index, slot.version());
            let index = self.len;
            self.len += 1;

            // SAFETY: We can't overflow because self.len < N.
            debug_checked_assume!(index < self.len);

            // SAFETY: We know that index < N and points to an empty cell.
            let data = data.raw_get();
            self.entities.write(index, entity);
            self.d0.get_mut().write(index, data.0);

            proof {
                lemma_chain_pop(old(self).s_slots(), old(self).s_head(), (old(self).s_cap() - old(self).s_len()) as nat, self.s_slots());
                assert forall|i: int| 0 <= i < self.s_len() implies #[trigger] self.dense_ok(i) by {
                    if i < old(self).s_len() { assert(old(self).dense_ok(i)); }
                }
                assert forall|s: int| 0 <= s < self.s_cap() implies #[trigger] self.sparse_ok(s) by {
                    assert(old(self).sparse_ok(s));
                }
            }
            entity
        }
    }

    /// Destroys the given slot and data.
    unsafe fn force_destroy(
        &mut self,
        indices: (TrimmedIndex, TrimmedIndex), // (slot_index, dense_index)
    ) -> (result: A::Components)
        requires old(self).wf(),
            indices.1.v() < old(self).s_len(),
            indices.0.v() < old(self).s_cap(),
            !old(self).s_slots()[indices.0.v() as int]->0.sindex().free(),
            old(self).s_slots()[indices.0.v() as int]->0.sindex().idx() == indices.1.v(),
        ensures final(self).wf(),
            final(self).s_len() == old(self).s_len() - 1,
            final(self).s_cap() == old(self).s_cap(),
            final(self).s_ver() == old(self).s_ver() + 1,
            result.c0() == old(self).s_d0()[indices.1.v() as int]->0,
            final(self).s_ents() == old(self).s_ents().update(indices.1.v() as int, old(self).s_ents()[old(self).s_len() - 1]).update(old(self).s_len() - 1, None),
            final(self).s_d0() == old(self).s_d0().update(indices.1.v() as int, old(self).s_d0()[old(self).s_len() - 1]).update(old(self).s_len() - 1, None),
            final(self).s_slots()[indices.0.v() as int]->0.sindex().free(),
            final(self).s_slots()[indices.0.v() as int]->0.sversion().v() == old(self).s_slots()[indices.0.v() as int]->0.sversion().v() + 1,
            forall|s: int| 0 <= s < old(self).s_cap() && s != indices.0.v() ==> (#[trigger] final(self).s_slots()[s])->0.sversion() == old(self).s_slots()[s]->0.sversion(),
    {
        let ghost mut unwind_ok = true;
        let (slot_index, dense_index) = indices;
        let ghost mut s1: Seq<Slot> = Seq::empty();

        let result = unsafe {
            // SAFETY: These are guaranteed by resolve_slot to be in range.
            let slot_index_usize: usize = slot_index.into();
            let dense_index_usize: usize = dense_index.into();

            let entities = self.entities.slice(self.len);

            // Compute the new versions before we modify anything. These can panic
            // on overflow, and we must not unwind from a partially-updated state.
            assert(unwind_ok); // UNWIND-OBLIGATION
            let next_version = self.version.next();
            assert(unwind_ok); // UNWIND-OBLIGATION
            let next_slot_version = self
                .slots
                .slice(self.capacity())
                .get_unchecked(slot_index_usize) // SAFETY: See declaration.
                .version()
                .next();

            // SAFETY: We know self.len > 0 because we got Some from resolve_slot.
            let last_dense_index = self.len - 1;
            // SAFETY: We know the entity slice has a length of self.len.
            let last_entity = *entities.get_unchecked(last_dense_index);
            // SAFETY: We guarantee that stored entities point to valid slots.
            let last_slot_index: usize = last_entity.slot_index().into();
            proof { assert(old(self).dense_ok(last_dense_index as int)); assert(old(self).sparse_ok(slot_index_usize as int)); assert(old(self).dense_ok(dense_index_usize as int)); }

            // Perform the swap_remove on our data to drop the target entity.
            // SAFETY: We guarantee that non-free slots point to valid dense data.
            self.entities.swap_remove(dense_index_usize, self.len);
            proof { unwind_ok = false; }
            let result = <A::Components as Components1<T0>>::raw_new(
                self.d0.get_mut().swap_remove(dense_index_usize, self.len),
            );

            // SAFETY: We know that the slot storage is valid up to our capacity.
            let slots = self.slots.slice_mut(self.capacity());

            // NOTE: Order matters here to support the (target == last) case!
            // Fix up the slot pointing to the last entity
            slots
                .get_unchecked_mut(last_slot_index) // SAFETY: See declaration.
                .assign(dense_index);
            proof { s1 = slots@; }
            // Return the target slot to the free list
            slots
                .get_unchecked_mut(slot_index_usize) // SAFETY: See declaration.
                .release(self.free_head, next_slot_version);

            // Advance this storage's overall version (for add/removes).
            self.version = next_version;

            result
        };

        // Update the free list head
        self.free_head = SlotIndex::new_free(slot_index);
        self.len -= 1;

        proof {
            let os = old(self).s_slots(); let ns = self.s_slots();
            let p = slot_index.v() as int; let d = dense_index.v() as int;
            let l = old(self).s_len() - 1;
            let q = old(self).s_ents()[l]->0.sidx() as int;
            let n = (old(self).s_cap() - old(self).s_len()) as nat;
            let oh = old(self).s_head();
            assert(old(self).dense_ok(l)); assert(old(self).sparse_ok(p)); assert(old(self).dense_ok(d));
            let mid = os.update(q, Some(s1[q]));
            lemma_chain_live(os, oh, n, q);
            lemma_chain_frame(os, oh, n, mid, q);
            lemma_chain_live(mid, oh, n, p);
            lemma_chain_frame(mid, oh, n, ns, p);
            assert(free_chain(ns, self.s_head(), (n + 1) as nat));
            assert forall|i: int| 0 <= i < self.s_len() implies #[trigger] self.dense_ok(i) by {
                assert(old(self).dense_ok(i));
            }
            assert forall|s: int| 0 <= s < self.s_cap() implies #[trigger] self.sparse_ok(s) by {
                assert(old(self).sparse_ok(s));
                if !os[s]->0.sindex().free() { assert(old(self).dense_ok(os[s]->0.sindex().idx() as int)); }
            }
        }
        result
    }

    /// Grows the storage structure to accommodate more data.
    #[inline(always)]
    fn grow(&mut self) -> (r: bool)
        requires old(self).wf(), old(self).s_len() == old(self).s_cap()
        ensures final(self).wf(),
            r == (old(self).s_cap() < 0x100_0000),
            !r ==> final(self).s_cap() == old(self).s_cap(),
            r ==> final(self).s_cap() > old(self).s_cap() && final(self).s_cap() <= 0x100_0000,
            final(self).s_len() == old(self).s_len(),
            final(self).s_ver() == old(self).s_ver(),
            forall|i: int| 0 <= i < old(self).s_cap() ==> #[trigger] final(self).s_ents()[i] == old(self).s_ents()[i],
            forall|i: int| 0 <= i < old(self).s_cap() ==> #[trigger] final(self).s_d0()[i] == old(self).s_d0()[i],
            forall|i: int| 0 <= i < old(self).s_cap() ==> #[trigger] final(self).s_slots()[i] == old(self).s_slots()[i],
    {
        broadcast use lemma_max_cap;
        if self.capacity() >= MAX_DATA_CAPACITY as usize {
            return false; // Out of room to grow
        }

        let new_capacity = self.capacity.saturating_add(1).saturating_mul(2);
        let new_capacity = new_capacity.min(MAX_DATA_CAPACITY as usize);
        let ghost mut g1: Seq<Option<Slot>> = Seq::empty();

        unsafe {
            // SAFETY: We know new_capacity > self.capacity and is nonzero.
            self.slots.grow(self.capacity, new_capacity);
            self.entities.grow(self.capacity, new_capacity);
            self.d0.get_mut().grow(self.capacity, new_capacity);
            proof { g1 = self.slots.cells(); }

            // SAFETY: We know self.len <= MAX_DATA_CAPACITY.
            let free_start = TrimmedIndex::new_usize(self.len).unwrap_unchecked();
            // SAFETY: We just grew the slot data array up to new_capacity.
            let slots = self.slots.raw_data(new_capacity);

            // Populate the end of the list as the new free list. We are
            // assuming here that, because we are full, every slot is occupied
            // and so our free list is entirely empty. Thus, we need a new one.
            self.free_head = Slot::populate_free_list(free_start, slots);

            // Update our capacity
            self.capacity = new_capacity;
        }
        proof {
            lemma_chain_init(self.s_slots(), old(self).s_len() as int, self.s_head());
            assert(free_chain(self.s_slots(), self.s_head(), (self.s_cap() - self.s_len()) as nat));
            assert forall|s: int| 0 <= s < old(self).s_cap() implies #[trigger] self.s_slots()[s] == old(self).s_slots()[s] by {
                assert(g1[s] == old(self).s_slots()[s]);
            }
            assert forall|s: int| 0 <= s < self.s_cap() implies #[trigger] self.s_slots()[s] is Some by {
                if s < old(self).s_cap() { assert(old(self).s_slots()[s] is Some); }
            }
            assert(forall|i: int| 0 <= i < self.s_cap() ==> (#[trigger] self.s_ents()[i] is Some <==> i < self.s_len()));
            assert(forall|i: int| 0 <= i < self.s_cap() ==> (#[trigger] self.s_d0()[i] is Some <==> i < self.s_len()));
            assert forall|i: int| 0 <= i < self.s_len() implies #[trigger] self.dense_ok(i) by { assert(old(self).dense_ok(i)); }
            assert forall|s: int| 0 <= s < self.s_cap() implies #[trigger] self.sparse_ok(s) by {
                if s < old(self).s_cap() { assert(old(self).sparse_ok(s)); }
            }
        }

        // Success!
        true
    }

    #[inline(always)]
    pub fn push<D: Components1<T0>>(
        &mut self,
        data: D,
    ) -> (entity: Entity<A>)
        requires old(self).wf()
        ensures final(self).wf(), final(self).s_len() == old(self).s_len() + 1,
            final(self).s_cap() >= old(self).s_cap(),
            final(self).s_ents()[old(self).s_len() as int] == Some(entity),
            final(self).s_d0()[old(self).s_len() as int] == Some(data.c0()),
            forall|i: int| 0 <= i < old(self).s_len() ==> #[trigger] final(self).s_ents()[i] == old(self).s_ents()[i],
            forall|i: int| 0 <= i < old(self).s_len() ==> #[trigger] final(self).s_d0()[i] == old(self).s_d0()[i],
    {
        if self.len >= self.capacity() {
            // If we're full, we should also be at the end of the slot free list.
            debug_assert!(self.free_head.is_free_end());

            if self.grow() == false {
                gecs_panic();
            }
        }

        unsafe { self.force_create(data) }
    }

    #[inline(always)]
    pub fn push_within_capacity<D: Components1<T0>>(
        &mut self,
        data: D,
    ) -> (r: Result<Entity<A>, D>)
        requires old(self).wf()
        ensures final(self).wf(),
            r is Ok <==> old(self).s_len() < old(self).s_cap(),
            final(self).s_cap() == old(self).s_cap(),
            r is Err ==> r->Err_0 == data && *final(self) == *old(self),
            r is Ok ==> final(self).s_len() == old(self).s_len() + 1,
    {
        if self.len >= self.capacity() {
            // If we're full, we should also be at the end of the slot free list.
            debug_assert!(self.free_head.is_free_end());

            return Err(data);
        }

        Ok(unsafe { self.force_create(data) })
    }
}

// ---------------- free-list lemmas (ghost only)
pub open spec fn chain_has(slots: Seq<Option<Slot>>, head: SlotIndex, n: nat, p: int) -> bool
    decreases n
{
    if n == 0 { false } else {
        head.idx() == p || chain_has(slots, slots[head.idx() as int]->0.sindex(), (n - 1) as nat, p)
    }
}

proof fn lemma_chain_unique(slots: Seq<Option<Slot>>, head: SlotIndex, n: nat, m: nat)
    requires free_chain(slots, head, n), free_chain(slots, head, m)
    ensures n == m
    decreases n
{
    if n == 0 || m == 0 { } else {
        lemma_chain_unique(slots, slots[head.idx() as int]->0.sindex(), (n - 1) as nat, (m - 1) as nat);
    }
}

// a node on the chain heads a sub-chain that is strictly shorter or equal
proof fn lemma_chain_sub(slots: Seq<Option<Slot>>, head: SlotIndex, n: nat, p: int)
    requires free_chain(slots, head, n), chain_has(slots, head, n, p)
    ensures exists|k: nat| 1 <= k <= n && 0 <= p < slots.len() && slots[p] is Some && slots[p]->0.sindex().free()
               && #[trigger] free_chain(slots, slots[p]->0.sindex(), (k - 1) as nat)
    decreases n
{
    if n == 0 { } else if head.idx() == p {
        assert(free_chain(slots, slots[p]->0.sindex(), (n - 1) as nat));
    } else {
        lemma_chain_sub(slots, slots[head.idx() as int]->0.sindex(), (n - 1) as nat, p);
        let k = choose|k: nat| 1 <= k <= n - 1 && 0 <= p < slots.len() && slots[p] is Some && slots[p]->0.sindex().free()
               && #[trigger] free_chain(slots, slots[p]->0.sindex(), (k - 1) as nat);
        assert(free_chain(slots, slots[p]->0.sindex(), (k - 1) as nat));
    }
}

// updating a position that is not on the chain preserves the chain
proof fn lemma_chain_frame(slots: Seq<Option<Slot>>, head: SlotIndex, n: nat, slots2: Seq<Option<Slot>>, p: int)
    requires free_chain(slots, head, n), !chain_has(slots, head, n, p),
        slots2.len() == slots.len(),
        forall|i: int| 0 <= i < slots.len() && i != p ==> slots2[i] == slots[i],
    ensures free_chain(slots2, head, n), !chain_has(slots2, head, n, p)
    decreases n
{
    if n == 0 { } else {
        lemma_chain_frame(slots, slots[head.idx() as int]->0.sindex(), (n - 1) as nat, slots2, p);
    }
}

// a position holding a live slot is never on the chain
proof fn lemma_chain_live(slots: Seq<Option<Slot>>, head: SlotIndex, n: nat, p: int)
    requires free_chain(slots, head, n), 0 <= p < slots.len(), slots[p] is Some, !slots[p]->0.sindex().free()
    ensures !chain_has(slots, head, n, p)
    decreases n
{
    if n == 0 { } else {
        lemma_chain_live(slots, slots[head.idx() as int]->0.sindex(), (n - 1) as nat, p);
    }
}

// pop: head position p becomes live; the rest of the chain survives
proof fn lemma_chain_pop(slots: Seq<Option<Slot>>, head: SlotIndex, n: nat, slots2: Seq<Option<Slot>>)
    requires free_chain(slots, head, n), n > 0,
        slots2.len() == slots.len(),
        forall|i: int| 0 <= i < slots.len() && i != head.idx() ==> slots2[i] == slots[i],
    ensures free_chain(slots2, slots[head.idx() as int]->0.sindex(), (n - 1) as nat)
{
    let p = head.idx() as int;
    let next = slots[p]->0.sindex();
    if chain_has(slots, next, (n - 1) as nat, p) {
        lemma_chain_sub(slots, next, (n - 1) as nat, p);
        let k = choose|k: nat| 1 <= k <= n - 1 && 0 <= p < slots.len() && slots[p] is Some && slots[p]->0.sindex().free()
               && #[trigger] free_chain(slots, slots[p]->0.sindex(), (k - 1) as nat);
        lemma_chain_unique(slots, next, (n - 1) as nat, (k - 1) as nat);
        assert(false);
    }
    lemma_chain_frame(slots, next, (n - 1) as nat, slots2, p);
}

// a freshly threaded tail [a, L) is a chain of length L - a
proof fn lemma_chain_init(slots: Seq<Option<Slot>>, a: int, head: SlotIndex)
    requires 0 <= a, a < slots.len() || slots.len() == 0,
        forall|i: int| a <= i < slots.len() - 1 ==> {
            &&& (#[trigger] slots[i]) is Some
            &&& slots[i]->0.sindex().free()
            &&& !slots[i]->0.sindex().end()
            &&& slots[i]->0.sindex().idx() == i + 1 },
        slots.len() > 0 ==> {
            let l = slots.len() - 1;
            &&& slots[l] is Some && slots[l]->0.sindex().end() && slots[l]->0.sindex().free()
            &&& head.free() && !head.end() && head.idx() == a },
        slots.len() == 0 ==> head.free() && head.end(),
    ensures free_chain(slots, head, if slots.len() == 0 { 0 } else { (slots.len() - a) as nat })
    decreases slots.len() - a
{
    if slots.len() == 0 { } else if a == slots.len() - 1 {
        assert(free_chain(slots, slots[a]->0.sindex(), 0));
    } else {
        lemma_chain_init(slots, a + 1, slots[a]->0.sindex());
    }
}

}
fn main() {}
