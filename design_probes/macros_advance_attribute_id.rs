use vstd::prelude::*;
use std::collections::HashMap;

// ---- stubs for dependency types (syn / proc_macro2): assumed, not verified
mod syn {
    use vstd::prelude::*;
    verus! {
    #[verifier::external_body]
    pub struct Span;
    #[verifier::external_body]
    pub struct Ident { name: String }
    #[verifier::external_body]
    pub struct Error { msg: String }
    pub type Result<T> = std::result::Result<T, Error>;
    impl Ident {
        pub uninterp spec fn text(&self) -> Seq<char>;
        #[verifier::external_body]
        pub fn span(&self) -> Span { Span }
        #[verifier::external_body]
        pub fn to_string(&self) -> (r: String) ensures r@ == self.text() { self.name.clone() }
    }
    impl Error {
        #[verifier::external_body]
        pub fn new<T: std::fmt::Display>(span: Span, message: T) -> Error { Error { msg: message.to_string() } }
    }
    }
}
use syn::Ident;

verus! {

pub trait HasAttributeId {
    spec fn s_id(&self) -> Option<u8>;
    fn name(&self) -> &Ident;
    fn id(&self) -> (r: Option<u8>) ensures r == self.s_id();
}

fn advance_attribute_id(
    item: &impl HasAttributeId,
    ids: &mut HashMap<u8, String>,
    last: Option<u8>,
) -> (res: syn::Result<Option<u8>>)
    ensures
        ({
            let want: Option<u8> = match item.s_id() { Some(i) => Some(i), None => match last { Some(l) => if l < 255 { Some((l + 1) as u8) } else { None }, None => Some(0u8) } };
            match res {
                Ok(Some(n)) => want == Some(n) && !old(ids)@.contains_key(n) && final(ids)@.dom() == old(ids)@.dom().insert(n),
                Ok(None) => false,
                Err(_) => want is None || old(ids)@.contains_key(want->0),
            }
        })
{
    broadcast use vstd::std_specs::hash::group_hash_axioms;
    let next = {
        if let Some(archetype_id) = item.id() {
            Ok(archetype_id)
        } else if let Some(last) = last {
            if let Some(next) = last.checked_add(1) {
                Ok(next)
            } else {
                let span = item.name().span();
                Err(syn::Error::new(span, "attribute id may not exceed 255"))
            }
        } else {
            Ok(0) // Start counting from 0
        }
    }?;

    // We can't have an archetype ID of 0
    if let Some(name) = ids.insert(next, item.name().to_string()) {
        Err(syn::Error::new(
            item.name().span(),
            format!("attribute id {} is already assigned to {}", next, name,),
        ))
    } else {
        // We have a valid, unused archetype ID
        Ok(Some(next))
    }
}

}
fn main() {}
