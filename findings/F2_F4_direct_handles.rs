// Findings F2 and F4 (C09/C07), repaired by /repo commits afa51b6 and a545df1: this test FAILS on the pinned tree e0a7f57
// and passes with the fixes.  Run it in a scratch copy of /repo (tests/ directory).
use gecs::prelude::*;

pub struct CompA(pub u32);
ecs_world! { ecs_archetype!(ArchFoo, CompA); }

#[test]
fn f2_iter_destroy_hands_out_accepted_direct_handles() {
    let mut world = EcsWorld::default();
    for i in 0..4 { world.create::<ArchFoo>((CompA(i),)); }
    let mut checked = 0;
    let mut kept: Vec<(EntityDirect<ArchFoo>, u32)> = Vec::new();
    ecs_iter_destroy!(world, |direct: &EntityDirect<ArchFoo>, c: &CompA| {
        checked += 1;
        if c.0 == 3 { EcsStepDestroy::ContinueDestroy } else { kept.push((*direct, c.0)); EcsStepDestroy::Continue }
    });
    assert!(checked == 4);
    // no structural change after the last kept handle was issued: it must still be accepted and designate its entity
    let (last, val) = kept.last().copied().unwrap();
    assert!(world.contains(last), "F2: a direct handle handed out after a destroy in the same loop is stale at issue");
    assert!(ecs_find!(world, last, |c: &CompA| c.0) == Some(val));
}

#[test]
fn f4_to_direct_rejects_a_stale_direct_handle() {
    let mut world = EcsWorld::default();
    let a = world.create::<ArchFoo>((CompA(1),));
    let b = world.create::<ArchFoo>((CompA(2),));
    let da = world.to_direct(a).unwrap();
    world.destroy(b);
    assert!(!world.contains(da));
    assert!(world.to_direct(da).is_none(), "F4: to_direct(stale direct handle) returned Some");
}
