// Finding F3 (C03, release profile only): `Entity::<A>::from_any_unchecked` / `EntityDirect::<A>::from_any_unchecked` with a
// handle whose archetype byte belongs to ANOTHER archetype yields a typed handle that resolves in A, although the value is
// not bit-identical to the handle of any live entity of A.  Debug profile: clean debug_assert panic.
// Run:  cp findings/F3_from_any_unchecked.rs <scratch copy of /repo>/tests/ && cargo test --offline --release --test F3_from_any_unchecked
use gecs::prelude::*;

pub struct CompA(pub u32);
pub struct CompB(pub u32);

ecs_world! {
    ecs_archetype!(ArchFoo, CompA);
    ecs_archetype!(ArchBar, CompB);
}

#[test]
#[cfg(not(debug_assertions))]
fn forged_archetype_byte_resolves_in_release() {
    let mut world = EcsWorld::default();
    let a = world.create::<ArchFoo>((CompA(7),));
    let (key, ver) = EntityAny::from(a).raw();
    // flip the archetype byte: this value is NOT the handle of any entity of this world
    let forged_any = EntityAny::from_raw((key ^ 1, ver)).unwrap();
    assert!(forged_any != EntityAny::from(a));
    assert!(forged_any.archetype_id() == ArchBar::ARCHETYPE_ID);
    let forged: Entity<ArchFoo> = Entity::from_any_unchecked(forged_any);
    // F3: the forged value is accepted and reaches a's data
    assert!(world.contains(forged), "F3 no longer reproduces: the forged handle is rejected");
    assert!(ecs_find!(world, forged, |c: &CompA| c.0) == Some(7));
    assert!(forged != a);
}

#[test]
#[cfg(debug_assertions)]
#[should_panic]
fn forged_archetype_byte_panics_in_debug() {
    let mut world = EcsWorld::default();
    let a = world.create::<ArchFoo>((CompA(7),));
    let (key, ver) = EntityAny::from(a).raw();
    let forged_any = EntityAny::from_raw((key ^ 1, ver)).unwrap();
    let _forged: Entity<ArchFoo> = Entity::from_any_unchecked(forged_any);
}
