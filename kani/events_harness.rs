// ===== /verif/kani: events feature, world-level iterators (copied to tests/ of a scratch copy only; built with --features events) =====
#![cfg(all(kani, feature = "events"))]
use gecs::prelude::*;

pub struct CompA(pub u32);
pub struct CompB(pub u64);
pub struct CompZ;

ecs_world! {
    ecs_archetype!(ArchNil, CompZ);          // never used and declared FIRST: its logs stay empty, the iterators must skip it
    ecs_archetype!(ArchFoo, CompA, CompB);
    ecs_archetype!(ArchBar, CompA, CompZ);
}

// ---- C17 (bounded: 3 archetypes, 3 creations through both creation paths, one destroy through a SYMBOLIC key kind):
// the world-level event iterators yield exactly the union of the per-archetype logs with an exact size_hint at every
// position; clear_events empties the logs without affecting entities
#[kani::proof]
#[kani::unwind(6)]
fn world_events_exact_with_size_hint() {
    let mut world = EcsWorld::with_capacity(EcsWorldCapacity { arch_nil: 0, arch_foo: 2, arch_bar: 1 });
    let a = world.create::<ArchFoo>((CompA(1), CompB(10)));
    let a2 = world.create_within_capacity::<ArchFoo>((CompA(2), CompB(20))).ok().unwrap();
    let b = world.create::<ArchBar>((CompA(3), CompZ));
    let created = [EntityAny::from(a), EntityAny::from(a2), EntityAny::from(b)];
    {
        let mut it = world.iter_created();
        let mut seen = [false; 3];
        let mut left = 3usize;
        loop {
            assert!(it.size_hint() == (left, Some(left)));
            match it.next() {
                None => break,
                Some(e) => {
                    let mut hit = false;
                    for k in 0..3 { if *e == created[k] { assert!(!seen[k]); seen[k] = true; hit = true; } }
                    assert!(hit);
                    left -= 1;
                }
            }
        }
        assert!(left == 0 && seen[0] && seen[1] && seen[2]);
    }
    assert!(world.iter_destroyed().next().is_none());
    assert!(world.iter_destroyed().size_hint() == (0, Some(0)));
    let kind: u8 = kani::any();
    kani::assume(kind < 4);
    // destroy in the LAST archetype: the destroyed logs of the archetypes declared before it are empty
    let b_dir = world.to_direct(b).unwrap();
    let b_dir_any: EntityDirectAny = b_dir.into();
    match kind {
        0 => { world.destroy(b); }
        1 => { world.destroy(EntityAny::from(b)); }
        2 => { world.destroy(b_dir); }
        _ => { world.destroy(b_dir_any); }
    }
    {
        let mut it = world.iter_destroyed();
        assert!(it.size_hint() == (1, Some(1)));
        assert!(*it.next().unwrap() == EntityAny::from(b));
        assert!(it.size_hint() == (0, Some(0)));
        assert!(it.next().is_none());
    }
    assert!(world.archetype::<ArchBar>().iter_destroyed().count() == 1);
    assert!(world.archetype::<ArchFoo>().iter_destroyed().count() == 0 && world.archetype::<ArchFoo>().iter_created().count() == 2);
    // the created log is unaffected by the destroy
    assert!(world.iter_created().size_hint() == (3, Some(3)));
    world.clear_events();
    assert!(world.iter_created().next().is_none() && world.iter_destroyed().next().is_none());
    assert!(world.iter_created().size_hint() == (0, Some(0)));
    assert!(world.contains(a2) && world.contains(a) && !world.contains(b));
}
