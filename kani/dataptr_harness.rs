
// ===== appended by /verif/kani (scratch copy only; never committed to /repo) =====
// Bounded checks of the DataPtr<T> contracts assumed by the Verus layer (A-dataptr):
// the ghost view cells(): Seq<Option<T>> is realised here by a drop-counting element type
// whose constructor/destructor maintain a global ledger (LIVE[id] = how many times value `id`
// is currently owned, DROPS[id] = how many times it was dropped).
#[cfg(kani)]
mod kani_dataptr {
    use super::*;

    const MAXID: usize = 5;
    static mut DROPS: [u8; MAXID] = [0; MAXID];

    /// sized element with a destructor
    struct Dc { id: u8, pad: u32 }
    impl Drop for Dc {
        fn drop(&mut self) { unsafe { DROPS[self.id as usize] += 1; } }
    }
    /// zero-sized element with a destructor (counts in slot 0)
    struct Zc;
    impl Drop for Zc {
        fn drop(&mut self) { unsafe { DROPS[0] += 1; } }
    }

    fn drops(i: usize) -> u8 { unsafe { DROPS[i] } }

    // ---- write / slice / drop_to / dealloc on a sized Drop type: each written value dropped exactly once by drop_to(len)
    // (capacity fixed at 3 to keep the allocation concrete; len is symbolic 0..=3)
    #[kani::proof]
    #[kani::unwind(5)]
    fn dataptr_write_slice_drop_to_sized() {
        let len: usize = kani::any();
        kani::assume(len <= 3);
        let mut p: DataPtr<Dc> = DataPtr::with_capacity(3);
        unsafe {
            if len > 0 { p.write(0, Dc { id: 0, pad: 0xABCD0000 }); }
            if len > 1 { p.write(1, Dc { id: 1, pad: 0xABCD0001 }); }
            if len > 2 { p.write(2, Dc { id: 2, pad: 0xABCD0002 }); }
            {
                let s = p.slice(len);
                assert!(s.len() == len);
                if len > 0 { assert!(s[0].id == 0 && s[0].pad == 0xABCD0000); }
                if len > 2 { assert!(s[2].id == 2 && s[2].pad == 0xABCD0002); }
            }
            assert!(drops(0) == 0 && drops(1) == 0 && drops(2) == 0);
            p.drop_to(len);
            assert!(drops(0) == (len > 0) as u8);
            assert!(drops(1) == (len > 1) as u8);
            assert!(drops(2) == (len > 2) as u8);
            p.dealloc(3);
        }
    }

    // ---- the same for a ZERO-SIZED Drop type (drop_to must still run len destructors)
    #[kani::proof]
    #[kani::unwind(7)]
    fn dataptr_drop_to_zst() {
        let cap: usize = kani::any();
        kani::assume(cap <= 4);
        let len: usize = kani::any();
        kani::assume(len <= cap);
        let mut p: DataPtr<Zc> = DataPtr::with_capacity(cap);
        unsafe {
            for i in 0..len { p.write(i, Zc); }
            assert!(p.slice(len).len() == len);
            assert!(drops(0) == 0);
            p.drop_to(len);
            assert!(drops(0) as usize == len);
            p.dealloc(cap);
        }
    }

    // ---- swap_remove: returns cells[index], moves cells[len-1] into the hole, nothing dropped or duplicated
    // (len fixed at 3, index symbolic; and len == 1 separately)
    #[kani::proof]
    #[kani::unwind(5)]
    fn dataptr_swap_remove_sized() {
        let index: usize = kani::any();
        kani::assume(index < 3);
        let mut p: DataPtr<Dc> = DataPtr::with_capacity(3);
        unsafe {
            p.write(0, Dc { id: 0, pad: 70 });
            p.write(1, Dc { id: 1, pad: 71 });
            p.write(2, Dc { id: 2, pad: 72 });
            let out = p.swap_remove(index, 3);
            assert!(out.id == index as u8 && out.pad == 70 + index as u32);
            assert!(drops(0) == 0 && drops(1) == 0 && drops(2) == 0);
            {
                let s = p.slice(2);
                let w0 = if index == 0 { 2 } else { 0 };
                let w1 = if index == 1 { 2 } else { 1 };
                assert!(s[0].id == w0 && s[0].pad == 70 + w0 as u32);
                assert!(s[1].id == w1 && s[1].pad == 70 + w1 as u32);
            }
            core::mem::drop(out);
            assert!(drops(index) == 1);
            p.drop_to(2);
            assert!(drops(0) == 1 && drops(1) == 1 && drops(2) == 1);
            p.dealloc(3);
        }
    }

    #[kani::proof]
    #[kani::unwind(3)]
    fn dataptr_swap_remove_single() {
        let mut p: DataPtr<Dc> = DataPtr::with_capacity(1);
        unsafe {
            p.write(0, Dc { id: 3, pad: 9 });
            let out = p.swap_remove(0, 1);
            assert!(out.id == 3 && out.pad == 9 && drops(3) == 0);
            p.drop_to(0);
            assert!(drops(3) == 0);
            core::mem::drop(out);
            assert!(drops(3) == 1);
            p.dealloc(1);
        }
    }

    // ---- swap_remove on a zero-sized Drop type: the removed value is handed back (dropped by the caller), the rest stay
    #[kani::proof]
    #[kani::unwind(7)]
    fn dataptr_swap_remove_zst() {
        let len: usize = kani::any();
        kani::assume(len >= 1 && len <= 4);
        let index: usize = kani::any();
        kani::assume(index < len);
        let mut p: DataPtr<Zc> = DataPtr::with_capacity(len);
        unsafe {
            for i in 0..len { p.write(i, Zc); }
            let out = p.swap_remove(index, len);
            assert!(drops(0) == 0);
            core::mem::drop(out);
            assert!(drops(0) == 1);
            p.drop_to(len - 1);
            assert!(drops(0) as usize == len);
            p.dealloc(len);
        }
    }

    // ---- grow: the first old_capacity cells keep their values; new cells are writable (0 -> 2 and 2 -> 4)
    #[kani::proof]
    #[kani::unwind(6)]
    fn dataptr_grow_preserves() {
        let a: u64 = kani::any();
        let b: u64 = kani::any();
        let mut p: DataPtr<u64> = DataPtr::with_capacity(0);
        unsafe {
            p.grow(0, 2);
            p.write(0, a); p.write(1, b);
            p.grow(2, 4);
            p.write(2, 0x2222_0000_0000_0002u64); p.write(3, 0x2222_0000_0000_0003u64);
            let s = p.slice(4);
            assert!(s.len() == 4);
            assert!(s[0] == a && s[1] == b && s[2] == 0x2222_0000_0000_0002u64 && s[3] == 0x2222_0000_0000_0003u64);
            p.dealloc(4);
        }
    }

    // ---- grow with capacity == old_capacity (a no-op the storage never asks for, but the contract allows)
    #[kani::proof]
    #[kani::unwind(4)]
    fn dataptr_grow_same() {
        let a: u32 = kani::any();
        let mut p: DataPtr<u32> = DataPtr::with_capacity(2);
        unsafe {
            p.write(0, a); p.write(1, 5);
            p.grow(2, 2);
            assert!(p.slice(2)[0] == a && p.slice(2)[1] == 5);
            p.dealloc(2);
        }
    }

    // ---- slice_mut writes through; raw_data exposes the same cells (capacity 3, symbolic position)
    #[kani::proof]
    #[kani::unwind(5)]
    fn dataptr_slice_mut_raw_data() {
        let k: usize = kani::any();
        kani::assume(k < 3);
        let v: u32 = kani::any();
        let mut p: DataPtr<u32> = DataPtr::with_capacity(3);
        unsafe {
            {
                let raw = p.raw_data(3);
                assert!(raw.len() == 3);
                raw[0].write(100); raw[1].write(101); raw[2].write(102);
            }
            assert!(p.slice(3)[k] == 100 + k as u32);
            p.slice_mut(3)[k] = v;
            let s = p.slice(3);
            assert!(s[0] == if k == 0 { v } else { 100 });
            assert!(s[1] == if k == 1 { v } else { 101 });
            assert!(s[2] == if k == 2 { v } else { 102 });
            p.dealloc(3);
        }
    }

    // ---- odd size / alignment: [u8; 3] and (u8, u64) keep their values through grow + swap_remove
    #[kani::proof]
    #[kani::unwind(7)]
    fn dataptr_layouts() {
        let mut p: DataPtr<[u8; 3]> = DataPtr::with_capacity(2);
        let mut q: DataPtr<(u8, u64)> = DataPtr::with_capacity(2);
        let a: u8 = kani::any();
        let b: u64 = kani::any();
        unsafe {
            p.write(0, [a, 1, 2]); p.write(1, [3, a, 5]);
            q.write(0, (a, b)); q.write(1, (7, 9));
            p.grow(2, 4); q.grow(2, 3);
            let x = p.swap_remove(0, 2);
            assert!(x == [a, 1, 2]);
            assert!(p.slice(1)[0] == [3, a, 5]);
            let y = q.swap_remove(1, 2);
            assert!(y == (7, 9));
            assert!(q.slice(1)[0] == (a, b));
            p.dealloc(4); q.dealloc(3);
        }
    }
}
