
// ===== appended by /verif/kani (scratch copy only; never committed to /repo) =====
// LOOP-FREE, FULL-DOMAIN checks of the DataPtr<T> contracts assumed by the Verus layer (A-dataptr): the capacity is symbolic over
// the WHOLE range the storage can ask for (Verus proves capacity <= MAX_DATA_CAPACITY = 2^24 in wf()), positions are symbolic,
// values are symbolic.  "All other cells unchanged" is checked through a symbolic witness position j (any j: a universally
// quantified frame).  No loop is unwound, so a SUCCESSFUL result is a proof of the stated contract for the element type named in
// the harness (u64, [u8; 3], a zero-sized Drop type) -- not a bounded stand-in.  drop_to (a loop over len) stays bounded
// (dataptr_harness.rs).  swap_remove on the u64 column additionally re-checks the third (frame) cell.
#[cfg(kani)]
mod kani_dataptr_full {
    use super::*;
    const MAXCAP: usize = 1 << 24;

    // swap_remove: returns cells[index]; cells[index] := cells[len-1]; every other cell below len-1 unchanged (witness j)
    #[kani::proof]
    fn dataptr_full_swap_remove_u64() {
        let cap: usize = kani::any();
        kani::assume(cap >= 1 && cap <= MAXCAP);
        let len: usize = kani::any();
        kani::assume(len >= 1 && len <= cap);
        let index: usize = kani::any();
        kani::assume(index < len);
        let j: usize = kani::any();
        kani::assume(j < len);
        let mut p: DataPtr<u64> = DataPtr::with_capacity(cap);
        unsafe {
            let vi: u64 = kani::any();
            let vl: u64 = kani::any();
            let vj: u64 = kani::any();
            // three symbolic cells written through the real write(); later writes win where positions coincide
            p.write(j, vj);
            p.write(len - 1, vl);
            p.write(index, vi);
            let before_l = if len - 1 == index { vi } else { vl };
            let before_j = if j == index { vi } else if j == len - 1 { vl } else { vj };
            let out = p.swap_remove(index, len);
            assert!(out == vi);
            let raw = p.raw_data(len);
            assert!(raw.len() == len);
            if index != len - 1 { assert!(raw[index].assume_init() == before_l); }
            if j != index && j != len - 1 { assert!(raw[j].assume_init() == before_j); }
            kani::cover!(index == 0 && j == 1 && len == MAXCAP);
            kani::cover!(index == len - 1);
            p.dealloc(cap);
        }
    }

    // write / slice / slice_mut / raw_data: a written cell reads back through every accessor, a write through slice_mut lands in
    // exactly that cell (witness j unchanged), accessor lengths are len
    #[kani::proof]
    fn dataptr_full_write_slice_u64() {
        let cap: usize = kani::any();
        kani::assume(cap >= 1 && cap <= MAXCAP);
        let len: usize = kani::any();
        kani::assume(len >= 1 && len <= cap);
        let k: usize = kani::any();
        kani::assume(k < len);
        let j: usize = kani::any();
        kani::assume(j < len && j != k);
        let mut p: DataPtr<u64> = DataPtr::with_capacity(cap);
        unsafe {
            let vk: u64 = kani::any();
            let vj: u64 = kani::any();
            let w: u64 = kani::any();
            p.write(j, vj);
            p.write(k, vk);
            {
                let s = p.slice(len);
                assert!(s.len() == len);
                assert!(s[k] == vk && s[j] == vj);
            }
            {
                let m = p.slice_mut(len);
                assert!(m.len() == len);
                assert!(m[k] == vk && m[j] == vj);
                m[k] = w;
            }
            let raw = p.raw_data(len);
            assert!(raw.len() == len);
            assert!(raw[k].assume_init() == w && raw[j].assume_init() == vj);
            kani::cover!(k == len - 1 && j == 0 && cap == MAXCAP);
            p.dealloc(cap);
        }
    }

    #[kani::proof]
    fn dataptr_full_swap_remove_odd() {
        let cap: usize = kani::any();
        kani::assume(cap >= 1 && cap <= MAXCAP);
        let len: usize = kani::any();
        kani::assume(len >= 1 && len <= cap);
        let index: usize = kani::any();
        kani::assume(index < len);
        let mut p: DataPtr<[u8; 3]> = DataPtr::with_capacity(cap);
        unsafe {
            let vi: [u8; 3] = kani::any();
            let vl: [u8; 3] = kani::any();
            p.write(len - 1, vl);
            p.write(index, vi);
            let before_l = if len - 1 == index { vi } else { vl };
            let out = p.swap_remove(index, len);
            assert!(out == vi);
            if index != len - 1 { assert!(p.raw_data(len)[index].assume_init() == before_l); }
            kani::cover!(index == 0 && len == cap);
            p.dealloc(cap);
        }
    }

    #[kani::proof]
    fn dataptr_full_grow_u64() {
        let old: usize = kani::any();
        let new: usize = kani::any();
        kani::assume(old <= new && new <= MAXCAP);
        let j: usize = kani::any();
        kani::assume(j < old);
        let mut p: DataPtr<u64> = DataPtr::with_capacity(old);
        unsafe {
            let vj: u64 = kani::any();
            let vn: u64 = kani::any();
            p.write(j, vj);
            p.grow(old, new);
            p.write(new - 1, vn);
            let raw = p.raw_data(new);
            assert!(raw.len() == new);
            assert!(raw[new - 1].assume_init() == vn);
            if j != new - 1 { assert!(raw[j].assume_init() == vj); }
            kani::cover!(old == 1 && new == MAXCAP);
            p.dealloc(new);
        }
    }

    static mut ZDROPS: u32 = 0;
    struct Zc;
    impl Drop for Zc { fn drop(&mut self) { unsafe { ZDROPS += 1; } } }

    #[kani::proof]
    fn dataptr_full_zst() {
        let cap: usize = kani::any();
        let len: usize = kani::any();
        kani::assume(len >= 1 && len <= cap);
        let index: usize = kani::any();
        kani::assume(index < len);
        let mut p: DataPtr<Zc> = DataPtr::with_capacity(cap);
        unsafe {
            p.write(index, Zc);
            assert!(ZDROPS == 0);
            assert!(p.slice(len).len() == len);
            let out = p.swap_remove(index, len);
            assert!(ZDROPS == 0);
            core::mem::drop(out);
            assert!(ZDROPS == 1);
            p.grow(cap, cap);
            p.dealloc(cap);
            assert!(ZDROPS == 1);
        }
    }

    // an OVER-ALIGNED element (alignment above what the allocator guarantees by default, size 32): layouts, strides and the
    // allocation path taken by grow may depend on the alignment.  BOUNDED (capacity <= 8; grow: the transitions 1 -> 2 and 2 -> 6): with the
    // capacity symbolic over 2^24 the 32-byte stride did not finish within 15 minutes.
    #[repr(align(32))]
    #[derive(Clone, Copy, PartialEq)]
    struct A32(u64);
    const A32CAP: usize = 8;

    #[kani::proof]
    fn dataptr_grow_align32_cap8() {
        // concrete capacity transitions (the storage's own growth sequence 0 -> 2 -> 6), symbolic position and values
        let second: bool = kani::any();
        let (old, new): (usize, usize) = if second { (2, 6) } else { (1, 2) };
        let j: usize = kani::any();
        kani::assume(j < old);
        let mut p: DataPtr<A32> = DataPtr::with_capacity(old);
        unsafe {
            let vj: u64 = kani::any();
            let vn: u64 = kani::any();
            p.write(j, A32(vj));
            p.grow(old, new);
            p.write(new - 1, A32(vn));
            let raw = p.raw_data(new);
            assert!(raw.len() == new);
            assert!(raw[new - 1].assume_init() == A32(vn));
            if j != new - 1 { assert!(raw[j].assume_init() == A32(vj)); }
            assert!((raw.as_ptr() as usize) % 32 == 0);
            kani::cover!(old == 2 && new == 6 && j == 1);
            kani::cover!(old == 1);
            p.dealloc(new);
        }
    }

    #[kani::proof]
    fn dataptr_swap_remove_align32_cap8() {
        let cap: usize = kani::any();
        kani::assume(cap >= 1 && cap <= A32CAP);
        let len: usize = kani::any();
        kani::assume(len >= 1 && len <= cap);
        let index: usize = kani::any();
        kani::assume(index < len);
        let mut p: DataPtr<A32> = DataPtr::with_capacity(cap);
        unsafe {
            let vi: u64 = kani::any();
            let vl: u64 = kani::any();
            p.write(len - 1, A32(vl));
            p.write(index, A32(vi));
            let before_l = if len - 1 == index { vi } else { vl };
            let out = p.swap_remove(index, len);
            assert!(out == A32(vi));
            if index != len - 1 { assert!(p.slice(len)[index] == A32(before_l)); }
            kani::cover!(index == 0 && len == cap);
            p.dealloc(cap);
        }
    }
}
