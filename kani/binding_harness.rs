// ===== /verif/kani: query parameter binding through the REAL expansions (copied to tests/ of a scratch copy only) =====
// C05 (bounded: ONE world declaration with four overlapping archetypes, five query shapes): the emitted code acts on exactly
// the archetypes whose component set satisfies the query.  This is the part the Verus contracts on bind_query_params cannot
// reach (emission); it is a bounded stand-in, never counted as proved.
#![cfg(kani)]
use gecs::prelude::*;

pub struct CompA(pub u32);
pub struct CompB(pub u32);
pub struct CompC(pub u32);
pub struct CompD(pub u32);
pub struct CompZ(pub u32);

ecs_world! {
    ecs_archetype!(ArchFoo, CompA, CompB);
    ecs_archetype!(ArchBar, CompA, CompZ);      // has none of the OneOf alternatives, declared right before a matching one
    ecs_archetype!(ArchBaz, CompA, CompC);
    ecs_archetype!(ArchQux, CompA, CompD);
}

#[kani::proof]
#[kani::unwind(4)]
fn world_query_binding_one_of() {
    let mut world = EcsWorld::default();
    let foo = world.create::<ArchFoo>((CompA(1), CompB(10)));
    let bar = world.create::<ArchBar>((CompA(2), CompZ(20)));
    let baz = world.create::<ArchBaz>((CompA(3), CompC(30)));
    let qux = world.create::<ArchQux>((CompA(4), CompD(40)));
    // component first, OneOf second: exactly Foo, Baz, Qux (each once, with its own column)
    let mut seen = [0u8; 5];
    let mut sum = 0u32;
    ecs_iter!(world, |a: &CompA, v: &OneOf<CompB, CompC, CompD>| { seen[a.0 as usize] += 1; sum += v.0; });
    assert!(seen[1] == 1 && seen[2] == 0 && seen[3] == 1 && seen[4] == 1 && sum == 80);
    // OneOf first: same set
    let mut seen2 = [0u8; 5];
    ecs_iter!(world, |_v: &OneOf<CompB, CompC, CompD>, a: &CompA| { seen2[a.0 as usize] += 1; });
    assert!(seen2[1] == 1 && seen2[2] == 0 && seen2[3] == 1 && seen2[4] == 1);
    // wildcard entity + dynamic entity before the OneOf, borrow flavour
    let mut seen3 = [0u8; 5];
    ecs_iter_borrow!(world, |_e: &Entity<_>, _any: &EntityAny, a: &CompA, _v: &OneOf<CompC, CompD>| { seen3[a.0 as usize] += 1; });
    assert!(seen3[1] == 0 && seen3[2] == 0 && seen3[3] == 1 && seen3[4] == 1);
    // a plain component query: all four; a component only one archetype has: just that one
    let mut n = 0u8;
    ecs_iter!(world, |_a: &CompA| { n += 1; });
    assert!(n == 4);
    let mut z = 0u32;
    ecs_iter!(world, |c: &CompZ| { z += c.0; });
    assert!(z == 20);
    // Entity<A> parameter restricts to that archetype
    let mut only_baz = 0u8;
    ecs_iter!(world, |e: &Entity<ArchBaz>, a: &CompA| { assert!(*e == baz && a.0 == 3); only_baz += 1; });
    assert!(only_baz == 1);
    // find: matched archetypes run the closure with their own data, an unmatched live entity gives None
    assert!(ecs_find!(world, EntityAny::from(baz), |a: &CompA, v: &OneOf<CompB, CompC, CompD>| (a.0, v.0)) == Some((3, 30)));
    assert!(ecs_find!(world, EntityAny::from(foo), |a: &CompA, v: &OneOf<CompB, CompC, CompD>| (a.0, v.0)) == Some((1, 10)));
    assert!(ecs_find!(world, EntityAny::from(qux), |v: &OneOf<CompB, CompC, CompD>| v.0) == Some(40));
    assert!(ecs_find!(world, EntityAny::from(bar), |a: &CompA, v: &OneOf<CompB, CompC, CompD>| (a.0, v.0)).is_none());
    assert!(ecs_find_borrow!(world, EntityAny::from(bar), |c: &CompZ| c.0) == Some(20));
    // iter_destroy binds the same way
    let mut d = 0u8;
    ecs_iter_destroy!(world, |_a: &CompA, _v: &OneOf<CompB, CompC, CompD>| { d += 1; EcsStepDestroy::ContinueDestroy });
    assert!(d == 3 && world.contains(bar) && !world.contains(foo) && !world.contains(baz) && !world.contains(qux));
}
