// ===== /verif/kani: Clone with pending events (copied to tests/ of a scratch copy only; built with --features events) =====
// C13 / C17 (bounded: 2 creations, 1 destroy, then clone): the clone reports the SAME pending created / destroyed events, in the
// same order, and the two logs are independent afterwards (clear_events on one does not clear the other).
#![cfg(all(kani, feature = "events"))]
use gecs::prelude::*;

#[derive(Clone)] pub struct P(pub u32);
#[derive(Clone)] pub struct Q(pub u64);
ecs_world! {
    ecs_archetype!(ArchC, P, Q);
    ecs_archetype!(ArchD, P);
}

#[kani::proof]
#[kani::unwind(5)]
fn world_clone_keeps_pending_events() {
    let mut w = EcsWorld::default();
    let a = w.create::<ArchC>((P(0), Q(100)));
    let b = w.create::<ArchC>((P(1), Q(101)));
    let d = w.create::<ArchD>((P(2),));
    let first: bool = kani::any();
    let victim = if first { a } else { b };
    w.destroy(victim);
    let mut c = w.clone();
    {
        let mut ic = c.iter_created();
        let mut iw = w.iter_created();
        let mut n = 0u8;
        loop {
            match (iw.next(), ic.next()) {
                (Some(x), Some(y)) => { assert!(*x == *y); n += 1; }
                (None, None) => { break; }
                _ => { assert!(false); }
            }
        }
        assert!(n == 3);
    }
    {
        let mut ic = c.iter_destroyed();
        assert!(ic.next() == Some(&EntityAny::from(victim)));
        assert!(ic.next().is_none());
    }
    {
        let mut id = c.archetype::<ArchD>().iter_created();
        assert!(id.next() == Some(&d));
        assert!(id.next().is_none());
    }
    c.clear_events();
    assert!(c.iter_created().next().is_none() && c.iter_destroyed().next().is_none());
    assert!(w.iter_destroyed().next() == Some(&EntityAny::from(victim)));
    assert!(w.archetype::<ArchC>().iter_created().count() == 2);
}
