
// ===== appended by /verif/kani (scratch copy only; never committed to /repo) =====
// Base case of the raw-pointer iterator argument (see iter_step_harness.rs): loop-free, len <= capacity <= 2^24 symbolic.
#[cfg(kani)]
mod kani_iter_ctor {
    use super::*;
    use crate::archetype::iter::{Iter2, IterMut2};
    use crate::kani_iter_world::{KArch, KA, KB};
    const MAXCAP: usize = 1 << 24;

    // iter() / iter_mut(): the iterator starts at row 0 of every column (the SAME base pointers the slice accessors use) with
    // remaining == len.  The storage is built with arbitrary len <= capacity <= 2^24 by writing its private fields directly
    // (with_capacity(0) runs the free-list loop zero times); nothing is read through the pointers.
    #[kani::proof]
    #[kani::unwind(1)]
    fn iter_full_ctor_storage2() {
        let cap: usize = kani::any();
        kani::assume(cap <= MAXCAP);
        let len: usize = kani::any();
        kani::assume(len <= cap);
        let mut s = Storage2::<KArch, KA, KB>::with_capacity(0);
        s.capacity = cap;
        s.len = len;
        s.entities = DataPtr::with_capacity(cap);
        s.d0 = RefCell::new(DataPtr::with_capacity(cap));
        s.d1 = RefCell::new(DataPtr::with_capacity(cap));
        unsafe {
            let be = s.entities.slice(len).as_ptr();
            let ba = s.d0.get_mut().slice(len).as_ptr();
            let bb = s.d1.get_mut().slice(len).as_ptr();
            {
                let it = s.iter();
                let it2: Iter2<KArch, KA, KB> = core::mem::transmute_copy(&it);
                assert!(it2.remaining == len);
                assert!(it2.ptr_entity == be && it2.ptr_d0 == ba && it2.ptr_d1 == bb);
            }
            {
                let it = s.iter_mut();
                let it2: IterMut2<KArch, KA, KB> = core::mem::transmute_copy(&it);
                assert!(it2.remaining == len);
                assert!(it2.ptr_entity == be && it2.ptr_d0 as *const KA == ba && it2.ptr_d1 as *const KB == bb);
            }
            kani::cover!(len == MAXCAP);
            kani::cover!(len == 0 && cap > 0);
        }
        core::mem::forget(s);
    }
}
