
// ===== appended by /verif/kani to src/lib.rs (scratch copy only; never committed to /repo) =====
// Inductive step of the raw-pointer iterators IterN / IterMutN (src/archetype/iter.rs), which Verus cannot read.
// Contract of next(), checked LOOP-FREE from an ARBITRARY iterator state that satisfies the invariant
//     inv(it, pos):  it.remaining == len - pos  &&  it.ptr_entity == base_e + pos  &&  it.ptr_dK == base_K + pos      (pos <= len <= 2^24)
// next() returns None iff pos == len (state unchanged); otherwise the item's references are EXACTLY base_e + pos and base_K + pos
// of every column and the new state satisfies inv(it, pos + 1).  With the base case (iter_ctor_harness.rs: iter()/iter_mut() start
// with inv(it, 0) over the same base pointers the slice accessors return, remaining == len) induction over the number of calls gives:
// the k-th item is row k of every column, for k < len, then None -- every live row exactly once, each with its own handle and
// components.  `extern crate self as gecs` lets ecs_world! expand inside the crate to obtain a real generated archetype type.
#[cfg(kani)]
extern crate self as gecs;

#[cfg(kani)]
pub(crate) mod kani_iter_world {
    use crate::prelude::*;
    use crate::archetype::iter::{Iter2, IterMut2};
    use crate::archetype::storage::DataPtr;
    use std::marker::PhantomData;
    const MAXCAP: usize = 1 << 24;

    pub struct KA(pub u64);
    pub struct KB(pub [u8; 3]);

    pub struct KC(pub (u8, u64));

    crate::ecs_world! {
        ecs_archetype!(KArch, KA, KB);
        ecs_archetype!(KArch1, KB);
        ecs_archetype!(KArch3, KC, KA, KB);
    }

    #[kani::proof]
    fn iter_full_step_iter2() {
        let len: usize = kani::any();
        kani::assume(len <= MAXCAP);
        let pos: usize = kani::any();
        kani::assume(pos <= len);
        let mut e: DataPtr<Entity<KArch>> = DataPtr::with_capacity(len);
        let mut a: DataPtr<KA> = DataPtr::with_capacity(len);
        let mut b: DataPtr<KB> = DataPtr::with_capacity(len);
        unsafe {
            let be = e.ptr_data() as *const Entity<KArch>;
            let ba = a.ptr_data() as *const KA;
            let bb = b.ptr_data() as *const KB;
            let mut it = Iter2::<KArch, KA, KB> {
                remaining: len - pos,
                ptr_entity: be.add(pos),
                ptr_d0: ba.add(pos),
                ptr_d1: bb.add(pos),
                phantom: PhantomData,
            };
            match it.next() {
                None => {
                    assert!(pos == len);
                    assert!(it.remaining == 0 && it.ptr_entity == be.add(pos) && it.ptr_d0 == ba.add(pos) && it.ptr_d1 == bb.add(pos));
                }
                Some((re, ra, rb)) => {
                    assert!(pos < len);
                    assert!(re as *const Entity<KArch> == be.add(pos));
                    assert!(ra as *const KA == ba.add(pos));
                    assert!(rb as *const KB == bb.add(pos));
                    assert!(it.remaining == len - pos - 1);
                    assert!(it.ptr_entity == be.add(pos + 1) && it.ptr_d0 == ba.add(pos + 1) && it.ptr_d1 == bb.add(pos + 1));
                }
            }
            kani::cover!(pos + 1 == len && len == MAXCAP);
            kani::cover!(pos == len);
            e.dealloc(len); a.dealloc(len); b.dealloc(len);
        }
    }

    #[kani::proof]
    fn iter_full_step_iter_mut2() {
        let len: usize = kani::any();
        kani::assume(len <= MAXCAP);
        let pos: usize = kani::any();
        kani::assume(pos <= len);
        let mut e: DataPtr<Entity<KArch>> = DataPtr::with_capacity(len);
        let mut a: DataPtr<KA> = DataPtr::with_capacity(len);
        let mut b: DataPtr<KB> = DataPtr::with_capacity(len);
        unsafe {
            let be = e.ptr_data() as *const Entity<KArch>;
            let ba = a.ptr_data();
            let bb = b.ptr_data();
            let mut it = IterMut2::<KArch, KA, KB> {
                remaining: len - pos,
                ptr_entity: be.add(pos),
                ptr_d0: ba.add(pos),
                ptr_d1: bb.add(pos),
                phantom: PhantomData,
            };
            match it.next() {
                None => {
                    assert!(pos == len);
                    assert!(it.remaining == 0 && it.ptr_entity == be.add(pos) && it.ptr_d0 == ba.add(pos) && it.ptr_d1 == bb.add(pos));
                }
                Some((re, ra, rb)) => {
                    assert!(pos < len);
                    assert!(re as *const Entity<KArch> == be.add(pos));
                    assert!(ra as *mut KA == ba.add(pos));
                    assert!(rb as *mut KB == bb.add(pos));
                    assert!(it.remaining == len - pos - 1);
                    assert!(it.ptr_entity == be.add(pos + 1) && it.ptr_d0 == ba.add(pos + 1) && it.ptr_d1 == bb.add(pos + 1));
                }
            }
            kani::cover!(pos + 1 == len && len == MAXCAP);
            kani::cover!(pos == len);
            e.dealloc(len); a.dealloc(len); b.dealloc(len);
        }
    }

    // the same step contract for N = 1 and N = 3 columns (thorough tier); `$m` is `const` for IterN and `mut` for IterMutN
    macro_rules! step_harness {
        ($name:ident, $iter:ident, $arch:ty, $m:tt, [$(($f:ident, $p:ident, $b:ident, $r:ident, $t:ty)),*]) => {
            #[kani::proof]
            fn $name() {
                let len: usize = kani::any();
                kani::assume(len <= MAXCAP);
                let pos: usize = kani::any();
                kani::assume(pos <= len);
                let mut e: DataPtr<Entity<$arch>> = DataPtr::with_capacity(len);
                $(let mut $p: DataPtr<$t> = DataPtr::with_capacity(len);)*
                unsafe {
                    let be = e.ptr_data() as *const Entity<$arch>;
                    $(let $b = $p.ptr_data() as *$m $t;)*
                    let mut it = $iter::<$arch, $($t,)*> {
                        remaining: len - pos,
                        ptr_entity: be.add(pos),
                        $($f: $b.add(pos),)*
                        phantom: PhantomData,
                    };
                    match it.next() {
                        None => {
                            assert!(pos == len);
                            assert!(it.remaining == 0 && it.ptr_entity == be.add(pos));
                            $(assert!(it.$f == $b.add(pos));)*
                        }
                        Some((re, $($r,)*)) => {
                            assert!(pos < len);
                            assert!(re as *const Entity<$arch> == be.add(pos));
                            $(assert!(($r as *const $t) == ($b.add(pos) as *const $t));)*
                            assert!(it.remaining == len - pos - 1);
                            assert!(it.ptr_entity == be.add(pos + 1));
                            $(assert!(it.$f == $b.add(pos + 1));)*
                        }
                    }
                    kani::cover!(pos + 1 == len && len == MAXCAP);
                    kani::cover!(pos == len);
                    e.dealloc(len);
                    $($p.dealloc(len);)*
                }
            }
        };
    }
    use crate::archetype::iter::{Iter1, IterMut1, Iter3, IterMut3};
    step_harness!(iter_full_step_iter1, Iter1, KArch1, const, [(ptr_d0, p0, b0, r0, KB)]);
    step_harness!(iter_full_step_iter_mut1, IterMut1, KArch1, mut, [(ptr_d0, p0, b0, r0, KB)]);
    step_harness!(iter_full_step_iter3, Iter3, KArch3, const, [(ptr_d0, p0, b0, r0, KC), (ptr_d1, p1, b1, r1, KA), (ptr_d2, p2, b2, r2, KB)]);
    step_harness!(iter_full_step_iter_mut3, IterMut3, KArch3, mut, [(ptr_d0, p0, b0, r0, KC), (ptr_d1, p1, b1, r1, KA), (ptr_d2, p2, b2, r2, KB)]);
}
