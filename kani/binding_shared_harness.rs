// ===== /verif/kani: query parameter binding, third harness (copied to tests/ of a scratch copy only) =====
// C05 (bounded, ONE world declaration).  Several parameters of one query may bind the SAME column of an archetype (two shared
// `&C` parameters, or two OneOf parameters whose alternatives overlap): whether an archetype matches depends on its component SET,
// not on how many parameters the query has.  Archetypes with FEWER components than the query has component parameters must still
// be matched when every parameter binds.
#![cfg(kani)]
use gecs::prelude::*;

pub struct CompA(pub u32);
pub struct CompB(pub u32);
pub struct CompC(pub u32);
pub struct CompD(pub u32);

ecs_world! {
    ecs_archetype!(ArchSolo, CompA);            // one component: every parameter below that binds, binds CompA
    ecs_archetype!(ArchPair, CompB, CompC);
    ecs_archetype!(ArchWide, CompA, CompD);
    ecs_archetype!(ArchNone, CompC, CompD);     // has neither CompA nor CompB
}

#[kani::proof]
#[kani::unwind(4)]
fn world_query_binding_shared_column() {
    let mut world = EcsWorld::default();
    let solo = world.create::<ArchSolo>((CompA(1),));
    let pair = world.create::<ArchPair>((CompB(2), CompC(20)));
    let wide = world.create::<ArchWide>((CompA(4), CompD(40)));
    let none = world.create::<ArchNone>((CompC(8), CompD(80)));

    // the same component twice: matches exactly the archetypes that have CompA, whatever their size
    let mut s = 0u32;
    ecs_iter!(world, |a: &CompA, b: &CompA| { assert!(a.0 == b.0); s |= a.0; });
    assert!(s == 1 + 4);
    let mut s2 = 0u32;
    ecs_iter_borrow!(world, |a: &CompA, b: &CompA| { assert!(a.0 == b.0); s2 |= a.0; });
    assert!(s2 == 1 + 4);
    assert!(ecs_find!(world, solo, |a: &CompA, b: &CompA| a.0 + b.0) == Some(2));
    assert!(ecs_find!(world, EntityAny::from(solo), |a: &CompA, b: &CompA| a.0 + b.0) == Some(2));
    assert!(ecs_find!(world, EntityAny::from(none), |a: &CompA, b: &CompA| a.0 + b.0).is_none());

    // overlapping OneOf parameters: ArchSolo binds both to CompA, ArchPair binds (CompB, CompC), ArchWide binds (CompA, CompA)
    let mut n_solo = 0u8; let mut n_pair = 0u8; let mut n_wide = 0u8; let mut n_none = 0u8;
    ecs_iter!(world, |e: &EntityAny, _: &OneOf<CompA, CompB>, _: &OneOf<CompA, CompC>| {
        if *e == EntityAny::from(solo) { n_solo += 1; }
        if *e == EntityAny::from(pair) { n_pair += 1; }
        if *e == EntityAny::from(wide) { n_wide += 1; }
        if *e == EntityAny::from(none) { n_none += 1; }
    });
    assert!(n_solo == 1 && n_pair == 1 && n_wide == 1 && n_none == 0);
    assert!(ecs_find_borrow!(world, EntityAny::from(solo), |_: &OneOf<CompA, CompB>, _: &OneOf<CompA, CompC>| 5u8) == Some(5));

    let mut d = 0u8;
    ecs_iter_destroy!(world, |_a: &CompA, _b: &CompA| { d += 1; EcsStepDestroy::ContinueDestroy });
    assert!(d == 2 && !world.contains(solo) && !world.contains(wide) && world.contains(pair) && world.contains(none));
}
