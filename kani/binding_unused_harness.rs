// ===== /verif/kani: query parameter binding, second harness (copied to tests/ of a scratch copy only) =====
// C05 (bounded, ONE world declaration): like binding_harness.rs, but every OneOf parameter is the LAST parameter and its binding is
// UNUSED (`_`).  A change of the binding code that drops or mis-binds a trailing OneOf parameter makes the closures of
// binding_harness.rs fail to compile (undecided); here the expansion still compiles and the wrong archetype set shows at run time.
#![cfg(kani)]
use gecs::prelude::*;

pub struct CompA(pub u32);
pub struct CompB(pub u32);
pub struct CompC(pub u32);
pub struct CompD(pub u32);
pub struct CompZ(pub u32);

ecs_world! {
    ecs_archetype!(ArchFoo, CompA, CompB);
    ecs_archetype!(ArchBar, CompA, CompZ);      // has none of the OneOf alternatives
    ecs_archetype!(ArchBaz, CompA, CompC);
    ecs_archetype!(ArchQux, CompA, CompD);
}

#[kani::proof]
#[kani::unwind(4)]
fn world_query_binding_unused_trailing_one_of() {
    let mut world = EcsWorld::default();
    let foo = world.create::<ArchFoo>((CompA(1), CompB(10)));
    let bar = world.create::<ArchBar>((CompA(2), CompZ(20)));
    let baz = world.create::<ArchBaz>((CompA(3), CompC(30)));
    let qux = world.create::<ArchQux>((CompA(4), CompD(40)));
    let mut seen = [0u8; 5];
    ecs_iter!(world, |a: &CompA, _: &OneOf<CompB, CompC, CompD>| { seen[a.0 as usize] += 1; });
    assert!(seen[1] == 1 && seen[2] == 0 && seen[3] == 1 && seen[4] == 1);
    let mut seen2 = [0u8; 5];
    ecs_iter_borrow!(world, |a: &CompA, _: &OneOf<CompC, CompD>| { seen2[a.0 as usize] += 1; });
    assert!(seen2[1] == 0 && seen2[2] == 0 && seen2[3] == 1 && seen2[4] == 1);
    // a OneOf-only query is a pure filter
    let mut n = 0u8;
    ecs_iter!(world, |_: &OneOf<CompB, CompZ>| { n += 1; });
    assert!(n == 2);
    assert!(ecs_find!(world, EntityAny::from(bar), |a: &CompA, _: &OneOf<CompB, CompC, CompD>| a.0).is_none());
    assert!(ecs_find!(world, EntityAny::from(baz), |a: &CompA, _: &OneOf<CompB, CompC, CompD>| a.0) == Some(3));
    assert!(ecs_find_borrow!(world, EntityAny::from(bar), |a: &CompA, _: &OneOf<CompC, CompD>| a.0).is_none());
    let mut d = 0u8;
    ecs_iter_destroy!(world, |_a: &CompA, _: &OneOf<CompB, CompC, CompD>| { d += 1; EcsStepDestroy::ContinueDestroy });
    assert!(d == 3 && world.contains(bar) && !world.contains(foo) && !world.contains(baz) && !world.contains(qux));
}
