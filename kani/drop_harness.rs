// ===== /verif/kani: harness over the PUBLIC API and the real generated code (copied to tests/ of a scratch copy only) =====
#![cfg(kani)]
use gecs::prelude::*;

static mut DROPS: [u8; 6] = [0; 6];
pub struct D(pub u8);
impl Drop for D { fn drop(&mut self) { unsafe { DROPS[self.0 as usize] += 1; } } }
pub struct Zd;                      // zero-sized with a destructor, counted in slot 5
impl Drop for Zd { fn drop(&mut self) { unsafe { DROPS[5] += 1; } } }
pub struct P(pub u32);             // plain data, no drop glue
ecs_world! { ecs_archetype!(ArchD, D, Zd); ecs_archetype!(ArchM, D, P); }   // ArchM mixes a Drop component with a plain one

// ---- C04 (bounded: 3 creations, symbolic destroy choice and key kind, failed create_within_capacity, world drop):
// every component value moved into the world is dropped exactly once or handed back
#[kani::proof]
#[kani::unwind(5)]
fn world_drop_accounting() {
    let kill: u8 = kani::any();
    kani::assume(kill < 3);
    let dynamic: bool = kani::any();
    {
        let mut w = EcsWorld::with_capacity(EcsWorldCapacity { arch_d: 2, arch_m: 1 });
        let _m = w.create::<ArchM>((D(4), P(7)));          // stays alive until the world is dropped
        let e0 = w.create::<ArchD>((D(0), Zd));
        let e1 = w.create::<ArchD>((D(1), Zd));
        // full: the failed creation hands its argument back untouched
        match w.create_within_capacity::<ArchD>((D(2), Zd)) {
            Ok(_) => assert!(false),
            Err(back) => { unsafe { assert!(DROPS[2] == 0); } drop(back); unsafe { assert!(DROPS[2] == 1 && DROPS[5] == 1); } }
        }
        let e3 = w.create::<ArchD>((D(3), Zd));   // grows
        unsafe { assert!(DROPS[0] == 0 && DROPS[1] == 0 && DROPS[3] == 0 && DROPS[4] == 0); }
        let target = if kill == 0 { e0 } else if kill == 1 { e1 } else { e3 };
        let tid = if kill == 0 { 0 } else if kill == 1 { 1 } else { 3 };
        if dynamic {
            assert!(w.destroy(EntityAny::from(target)).is_some());     // components dropped by the `.map(|_| ())` path
            unsafe { assert!(DROPS[tid] == 1); }
        } else {
            let back = w.destroy(target).unwrap();                       // components handed back
            unsafe { assert!(DROPS[tid] == 0); }
            drop(back);
            unsafe { assert!(DROPS[tid] == 1); }
        }
        unsafe { assert!(DROPS[5] == 2); }
        for i in [0usize, 1, 3] { if i != tid { unsafe { assert!(DROPS[i] == 0); } } }
    }
    // world dropped: everything exactly once
    unsafe { assert!(DROPS[0] == 1 && DROPS[1] == 1 && DROPS[2] == 1 && DROPS[3] == 1 && DROPS[4] == 1 && DROPS[5] == 4); }
}
