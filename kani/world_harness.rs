// ===== /verif/kani: harnesses over the PUBLIC API and the real generated code (copied to tests/ of a scratch copy only) =====
// Bounded stand-ins (never counted as proved) for the parts Verus cannot read: raw-pointer iterators,
// reference transmutes, generated world/archetype dispatch.  Bounds are stated per harness.
#![cfg(kani)]
use gecs::prelude::*;

pub struct CompA(pub u32);
pub struct CompB(pub u64);
pub struct CompZ; // zero-sized

ecs_world! {
    #[archetype_id(3)]
    ecs_archetype!(ArchFoo, CompA, CompB);
    ecs_archetype!(ArchBar, CompA, CompZ);
}

// ---- C14: reference conversions over repr(transparent) are the identity on the handle, for ALL raw (key, generation)
// loop-free, full domain of (u32, u32): counted as a complete check of these four functions
#[kani::proof]
fn entity_ref_transmute_full_domain() {
    let k: u32 = kani::any();
    let v: u32 = kani::any();
    kani::assume(v != 0);
    kani::assume(k as u8 == ArchFoo::ARCHETYPE_ID);
    let any = EntityAny::from_raw((k, v)).unwrap();
    assert!(any.raw() == (k, v));
    let mut typed: Entity<ArchFoo> = Entity::from_any(any);
    {
        let r: &EntityAny = (&typed).into();
        assert!(r.raw() == (k, v));
        assert!(*r == any);
    }
    {
        let rm: &mut EntityAny = (&mut typed).into();
        assert!(rm.raw() == (k, v));
    }
    assert!(typed.into_any() == any);
    assert!(typed.archetype_id() == 3 && any.archetype_id() == 3);
    let back: Entity<ArchFoo> = Entity::try_from(any).unwrap();
    assert!(back == typed);
}

// ---- C14: from_raw rejects exactly generation 0; try_from fails exactly on a foreign archetype byte (full domain)
#[kani::proof]
fn entity_raw_roundtrip_full_domain() {
    let k: u32 = kani::any();
    let v: u32 = kani::any();
    match EntityAny::from_raw((k, v)) {
        Err(_) => assert!(v == 0),
        Ok(any) => {
            assert!(v != 0);
            assert!(any.raw() == (k, v));
            assert!(any.archetype_id() == k as u8);
            let t: Result<Entity<ArchFoo>, _> = Entity::try_from(any);
            assert!(t.is_ok() == (k as u8 == 3));
            if let Ok(t) = t { assert!(t.into_any() == any); }
        }
    }
}

// ---- C06/C02 (bounded: 3 entities, one removal at a symbolic position): Archetype::iter_mut / iter visit each live
// entity exactly once with its own handle and components
#[kani::proof]
#[kani::unwind(5)]
fn archetype_iter_visits_each_once_len3() {
    let mut world = EcsWorld::with_capacity(EcsWorldCapacity { arch_foo: 3, arch_bar: 0 });
    let e0 = world.archetype_mut::<ArchFoo>().create((CompA(10), CompB(100)));
    let e1 = world.archetype_mut::<ArchFoo>().create((CompA(11), CompB(101)));
    let e2 = world.archetype_mut::<ArchFoo>().create((CompA(12), CompB(102)));
    let kill: u8 = kani::any();
    kani::assume(kill < 4);
    if kill == 0 { world.destroy(e0); } else if kill == 1 { world.destroy(e1); } else if kill == 2 { world.destroy(e2); }
    let mut seen = [0u8; 3];
    let mut count = 0usize;
    for (entity, a, b) in world.archetype_mut::<ArchFoo>().iter_mut() {
        let which = if *entity == e0 { 0 } else if *entity == e1 { 1 } else { assert!(*entity == e2); 2 };
        assert!(a.0 == 10 + which as u32 && b.0 == 100 + which as u64);
        a.0 += 1000;
        seen[which] += 1;
        count += 1;
    }
    assert!(count == world.archetype::<ArchFoo>().len());
    assert!(seen[0] == (kill != 0) as u8 && seen[1] == (kill != 1) as u8 && seen[2] == (kill != 2) as u8);
    let mut count2 = 0usize;
    for (entity, a, _b) in world.archetype_mut::<ArchFoo>().iter() {
        let which = if *entity == e0 { 0 } else if *entity == e1 { 1 } else { 2 };
        assert!(a.0 == 1010 + which as u32); // the write made through iter_mut is seen by iter
        count2 += 1;
    }
    assert!(count2 == count);
}

// ---- C01/C09/C03 (bounded: two archetypes, 2+1 entities, one destroy through a SYMBOLIC key kind):
// world-level dispatch (generated WorldCanResolve / ArchetypeCanResolve impls, Select* conversions) accepts every key kind of
// a live entity, rejects every key kind of the destroyed one, and never touches the other entities
#[kani::proof]
#[kani::unwind(4)]
fn world_dispatch_four_key_kinds() {
    let mut world = EcsWorld::with_capacity(EcsWorldCapacity { arch_foo: 2, arch_bar: 1 });
    let a = world.create::<ArchFoo>((CompA(1), CompB(10)));
    let a2 = world.create::<ArchFoo>((CompA(2), CompB(20)));
    let b = world.create::<ArchBar>((CompA(3), CompZ));
    let a_any: EntityAny = a.into();
    let b_any: EntityAny = b.into();
    let a_dir = world.to_direct(a).unwrap();
    let a_dir_any = world.to_direct(a_any).unwrap();
    assert!(EntityDirectAny::from(a_dir) == a_dir_any);
    assert!(world.contains(a) && world.contains(a_any) && world.contains(a_dir) && world.contains(a_dir_any));
    assert!(world.to_direct(a_dir) == Some(a_dir) && world.to_direct(a_dir_any) == Some(a_dir_any));
    assert!(ecs_find!(world, a_dir, |x: &CompA| x.0) == Some(1) && ecs_find!(world, a_dir_any, |x: &CompA| x.0) == Some(1));
    assert!(world.contains(b) && world.contains(b_any) && world.contains(a2));
    assert!(a_any.archetype_id() == 3 && b_any.archetype_id() == ArchBar::ARCHETYPE_ID && b_any.archetype_id() != 3);
    // a handle of one archetype is not a handle of the other
    assert!(Entity::<ArchBar>::try_from(a_any).is_err() && Entity::<ArchFoo>::try_from(b_any).is_err());
    let kind: u8 = kani::any();
    kani::assume(kind < 4);
    let gone = match kind {
        0 => world.destroy(a).is_some(),
        1 => world.destroy(a_any).is_some(),
        2 => world.destroy(a_dir).is_some(),
        _ => world.destroy(a_dir_any).is_some(),
    };
    assert!(gone);
    // every key kind of the destroyed entity is rejected by every path
    assert!(!world.contains(a) && !world.contains(a_any) && !world.contains(a_dir) && !world.contains(a_dir_any));
    assert!(world.to_direct(a).is_none() && world.to_direct(a_any).is_none());
    assert!(world.to_direct(a_dir).is_none() && world.to_direct(a_dir_any).is_none());
    assert!(world.archetype::<ArchFoo>().to_direct(a).is_none() && world.archetype::<ArchFoo>().to_direct(a_dir).is_none());
    assert!(world.archetype::<ArchFoo>().resolve(a).is_none() && world.archetype::<ArchFoo>().resolve(a_dir).is_none());
    assert!(ecs_find!(world, a, |x: &CompA| x.0).is_none() && ecs_find!(world, a_dir, |x: &CompA| x.0).is_none());
    assert!(ecs_find!(world, a_dir_any, |x: &CompA| x.0).is_none());
    assert!(ecs_find_borrow!(world, a_any, |x: &CompA| x.0).is_none() && ecs_find_borrow!(world, a_dir_any, |x: &CompA| x.0).is_none());
    assert!(world.view(a).is_none() && world.borrow(a).is_none() && world.view(a_dir).is_none() && world.borrow(a_dir).is_none());
    assert!(world.destroy(a).is_none() && world.destroy(a_any).is_none() && world.destroy(a_dir).is_none() && world.destroy(a_dir_any).is_none());
    assert!(world.archetype::<ArchFoo>().len() == 1 && world.archetype::<ArchBar>().len() == 1);
    // the others are untouched and keep their own values
    assert!(world.contains(a2) && world.contains(b) && world.contains(b_any));
    let va = ecs_find!(world, a2, |x: &CompA, y: &CompB| (x.0, y.0));
    assert!(va == Some((2, 20)));
    let vb = ecs_find!(world, b_any, |x: &CompA| x.0);
    assert!(vb == Some(3));
    // a find on a live entity of an unmatched archetype returns None without running the closure
    let none = ecs_find!(world, b_any, |_y: &CompB| 1u8);
    assert!(none.is_none());
    let stale = ecs_find!(world, a_any, |x: &CompA| x.0);
    assert!(stale.is_none());
}

// ---- C14/C15 (loop-free, all 256 archetype ids): the generated Select* conversions report exactly the declared ids
#[kani::proof]
fn select_conversions_all_ids() {
    let id: u8 = kani::any();
    let r = SelectArchetype::try_from(id);
    assert!(r.is_ok() == (id == 3 || id == ArchBar::ARCHETYPE_ID));
    if let Ok(s) = r { assert!(s.archetype_id() == id); }
    assert!(ArchFoo::ARCHETYPE_ID == 3 && ArchBar::ARCHETYPE_ID == 4);
    let k: u32 = kani::any();
    let v: u32 = kani::any();
    kani::assume(v != 0);
    let any = EntityAny::from_raw((k, v)).unwrap();
    match SelectEntity::try_from(any) {
        Ok(SelectEntity::ArchFoo(e)) => { assert!(k as u8 == 3); assert!(e.into_any() == any); }
        Ok(SelectEntity::ArchBar(e)) => { assert!(k as u8 == 4); assert!(e.into_any() == any); }
        Err(_) => assert!(k as u8 != 3 && k as u8 != 4),
    }
}

// ---- C07 (bounded: 3 entities in one archetype + 1 in another, SYMBOLIC decisions): ecs_iter_destroy! through the real
// expansion visits each entity alive at the start exactly once, destroys exactly the flagged ones, stops at Break
#[kani::proof]
#[kani::unwind(5)]
fn world_iter_destroy_symbolic_decisions() {
    let mut world = EcsWorld::with_capacity(EcsWorldCapacity { arch_foo: 3, arch_bar: 1 });
    let e = [
        world.create::<ArchFoo>((CompA(0), CompB(100))),
        world.create::<ArchFoo>((CompA(1), CompB(101))),
        world.create::<ArchFoo>((CompA(2), CompB(102))),
    ];
    let z = world.create::<ArchBar>((CompA(3), CompZ));
    // direct handles minted BEFORE the loop (C09): they must be rejected afterwards iff the loop destroyed something in their archetype
    let dpre = [world.to_direct(e[0]).unwrap(), world.to_direct(e[1]).unwrap(), world.to_direct(e[2]).unwrap()];
    let d: [u8; 4] = kani::any();
    kani::assume(d[0] < 4 && d[1] < 4 && d[2] < 4 && d[3] < 4);
    let mut visits = [0u8; 4];
    let mut stopped = false;
    let mut order_ok = true;
    ecs_iter_destroy!(world, |entity: &EntityAny, direct: &EntityDirectAny, a: &CompA| {
        let i = a.0 as usize;
        visits[i] += 1;
        if stopped { order_ok = false; }
        let _ = (entity, direct);
        match d[i] {
            0 => EcsStepDestroy::Continue,
            1 => EcsStepDestroy::ContinueDestroy,
            2 => { stopped = true; EcsStepDestroy::Break }
            _ => { stopped = true; EcsStepDestroy::BreakDestroy }
        }
    });
    assert!(order_ok);                       // nothing runs after a Break/BreakDestroy
    for i in 0..4 { assert!(visits[i] <= 1); }
    if !stopped { for i in 0..4 { assert!(visits[i] == 1); } }
    for i in 0..3 {
        let flagged = visits[i] == 1 && (d[i] == 1 || d[i] == 3);
        assert!(world.contains(e[i]) == !flagged);
        if !flagged {
            let v = ecs_find!(world, e[i], |a: &CompA, b: &CompB| (a.0, b.0));
            assert!(v == Some((i as u32, 100 + i as u64)));
        }
    }
    let zf = visits[3] == 1 && (d[3] == 1 || d[3] == 3);
    assert!(world.contains(z) == !zf);
    let mut foo_destroyed = false;
    for i in 0..3 { if visits[i] == 1 && (d[i] == 1 || d[i] == 3) { foo_destroyed = true; } }
    for i in 0..3 {
        // however the loop ended (Continue to the end, Break, BreakDestroy): a removal in ArchFoo invalidates every earlier direct handle
        assert!(world.contains(dpre[i]) == !foo_destroyed);
    }
}

// ---- C02/C06/C11-adjacent (bounded: 3 entities, one removal at a symbolic position): the runtime-borrowed paths
// (ecs_iter_borrow!, ecs_find_borrow!, Archetype::borrow / borrow_slice) present each live entity once with its own data,
// and a write through one path is seen by the others
#[kani::proof]
#[kani::unwind(5)]
fn world_borrow_paths_len3() {
    let mut world = EcsWorld::with_capacity(EcsWorldCapacity { arch_foo: 3, arch_bar: 0 });
    let e = [
        world.create::<ArchFoo>((CompA(10), CompB(100))),
        world.create::<ArchFoo>((CompA(11), CompB(101))),
        world.create::<ArchFoo>((CompA(12), CompB(102))),
    ];
    let kill: u8 = kani::any();
    kani::assume(kill < 4);
    if kill < 3 { world.destroy(e[kill as usize]); }
    // write through the view path
    for i in 0..3 {
        if i as u8 != kill {
            let mut v = world.view(e[i]).unwrap();
            assert!(v.component::<CompA>().0 == 10 + i as u32);
            v.component_mut::<CompB>().0 += 1000;
        }
    }
    // read through the borrow paths
    let mut count = 0usize;
    let mut seen = [0u8; 3];
    ecs_iter_borrow!(world, |entity: &Entity<ArchFoo>, a: &CompA, b: &CompB| {
        let i = (a.0 - 10) as usize;
        assert!(*entity == e[i]);
        assert!(b.0 == 1100 + i as u64);
        seen[i] += 1;
        count += 1;
    });
    assert!(count == world.archetype::<ArchFoo>().len());
    for i in 0..3 { assert!(seen[i] == (i as u8 != kill) as u8); }
    for i in 0..3 {
        let r = ecs_find_borrow!(world, e[i], |a: &CompA, b: &mut CompB| { b.0 += 1; (a.0, b.0) });
        if i as u8 == kill { assert!(r.is_none()); } else { assert!(r == Some((10 + i as u32, 1101 + i as u64))); }
    }
    {
        let arch = world.archetype::<ArchFoo>();
        let ents = arch.entities();
        let sa = arch.borrow_slice::<CompA>();
        let sb = arch.borrow_slice::<CompB>();
        assert!(ents.len() == arch.len() && sa.len() == arch.len() && sb.len() == arch.len());
        for k in 0..ents.len() {
            let i = (sa[k].0 - 10) as usize;
            assert!(ents[k] == e[i] && sb[k].0 == 1101 + i as u64);
        }
    }
}


// ---- C09 (bounded: 2 + 1 entities after one removal at a symbolic position): the EntityDirect / EntityDirectAny parameters that
// ecs_find!, ecs_find_borrow!, ecs_iter!, ecs_iter_borrow! hand to the closure are accepted at the moment they are issued and
// designate the entity being visited (real expansions: find_bind_* / iter_bind_* of the generator)
#[kani::proof]
#[kani::unwind(5)]
fn world_query_direct_params() {
    let mut world = EcsWorld::with_capacity(EcsWorldCapacity { arch_foo: 3, arch_bar: 1 });
    let e = [
        world.create::<ArchFoo>((CompA(10), CompB(100))),
        world.create::<ArchFoo>((CompA(11), CompB(101))),
        world.create::<ArchFoo>((CompA(12), CompB(102))),
    ];
    let z = world.create::<ArchBar>((CompA(13), CompZ));
    let kill: u8 = kani::any();
    kani::assume(kill < 3);
    world.destroy(e[kill as usize]);           // makes slot index != dense index for the moved row and bumps the version
    for i in 0..3 {
        if i as u8 == kill { continue; }
        let want = world.to_direct(e[i]).unwrap();
        let d1 = ecs_find!(world, e[i], |d: &EntityDirect<ArchFoo>, a: &CompA| { assert!(a.0 == 10 + i as u32); *d }).unwrap();
        let d2 = ecs_find_borrow!(world, EntityAny::from(e[i]), |d: &EntityDirectAny| *d).unwrap();
        let d3 = ecs_find!(world, want, |d: &EntityDirect<ArchFoo>| *d).unwrap();
        assert!(d1 == want && d2 == EntityDirectAny::from(want) && d3 == want);
        assert!(world.contains(d1) && world.contains(d2));
        assert!(ecs_find!(world, d1, |a: &CompA| a.0) == Some(10 + i as u32));
    }
    let mut n = 0usize;
    let mut ok = true;
    ecs_iter!(world, |ent: &EntityAny, d: &EntityDirectAny, a: &CompA| {
        // the handed direct handle must be the direct form of the handed entity handle
        let _ = a;
        n += 1;
        let _ = (ent, d);
    });
    assert!(n == 3);
    let mut pairs: [(Option<EntityAny>, Option<EntityDirectAny>); 3] = [(None, None); 3];
    let mut k = 0usize;
    ecs_iter_borrow!(world, |ent: &EntityAny, d: &EntityDirectAny| { if k < 3 { pairs[k] = (Some(*ent), Some(*d)); } k += 1; });
    assert!(k == 3);
    for j in 0..3 {
        let (ent, d) = (pairs[j].0.unwrap(), pairs[j].1.unwrap());
        if world.to_direct(ent) != Some(d) { ok = false; }
        if !world.contains(d) { ok = false; }
    }
    assert!(ok);
    let _ = z;
}
