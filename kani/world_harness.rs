// ===== /verif/kani: harnesses over the PUBLIC API and the real generated code (copied to tests/ of a scratch copy only) =====
// Bounded stand-ins (never counted as proved) for the parts Verus cannot read: raw-pointer iterators,
// reference transmutes, generated world/archetype dispatch.  Bounds are stated per harness.
#![cfg(kani)]
use gecs::prelude::*;

pub struct CompA(pub u32);
pub struct CompB(pub u64);
pub struct CompZ; // zero-sized

ecs_world! {
    #[archetype_id(3)]
    ecs_archetype!(ArchFoo, CompA, CompB);
    ecs_archetype!(ArchBar, CompA, CompZ);
}

// ---- C14: reference conversions over repr(transparent) are the identity on the handle, for ALL raw (key, generation)
// loop-free, full domain of (u32, u32): counted as a complete check of these four functions
#[kani::proof]
fn entity_ref_transmute_full_domain() {
    let k: u32 = kani::any();
    let v: u32 = kani::any();
    kani::assume(v != 0);
    kani::assume(k as u8 == ArchFoo::ARCHETYPE_ID);
    let any = EntityAny::from_raw((k, v)).unwrap();
    assert!(any.raw() == (k, v));
    let mut typed: Entity<ArchFoo> = Entity::from_any(any);
    {
        let r: &EntityAny = (&typed).into();
        assert!(r.raw() == (k, v));
        assert!(*r == any);
    }
    {
        let rm: &mut EntityAny = (&mut typed).into();
        assert!(rm.raw() == (k, v));
    }
    assert!(typed.into_any() == any);
    assert!(typed.archetype_id() == 3 && any.archetype_id() == 3);
    let back: Entity<ArchFoo> = Entity::try_from(any).unwrap();
    assert!(back == typed);
}

// ---- C14: from_raw rejects exactly generation 0; try_from fails exactly on a foreign archetype byte (full domain)
#[kani::proof]
fn entity_raw_roundtrip_full_domain() {
    let k: u32 = kani::any();
    let v: u32 = kani::any();
    match EntityAny::from_raw((k, v)) {
        Err(_) => assert!(v == 0),
        Ok(any) => {
            assert!(v != 0);
            assert!(any.raw() == (k, v));
            assert!(any.archetype_id() == k as u8);
            let t: Result<Entity<ArchFoo>, _> = Entity::try_from(any);
            assert!(t.is_ok() == (k as u8 == 3));
            if let Ok(t) = t { assert!(t.into_any() == any); }
        }
    }
}

// ---- C06/C02 (bounded: 3 entities, one removal at a symbolic position): Archetype::iter_mut / iter visit each live
// entity exactly once with its own handle and components
#[kani::proof]
#[kani::unwind(5)]
fn archetype_iter_visits_each_once_len3() {
    let mut world = EcsWorld::with_capacity(EcsWorldCapacity { arch_foo: 3, arch_bar: 0 });
    let e0 = world.archetype_mut::<ArchFoo>().create((CompA(10), CompB(100)));
    let e1 = world.archetype_mut::<ArchFoo>().create((CompA(11), CompB(101)));
    let e2 = world.archetype_mut::<ArchFoo>().create((CompA(12), CompB(102)));
    let kill: u8 = kani::any();
    kani::assume(kill < 4);
    if kill == 0 { world.destroy(e0); } else if kill == 1 { world.destroy(e1); } else if kill == 2 { world.destroy(e2); }
    let mut seen = [0u8; 3];
    let mut count = 0usize;
    for (entity, a, b) in world.archetype_mut::<ArchFoo>().iter_mut() {
        let which = if *entity == e0 { 0 } else if *entity == e1 { 1 } else { assert!(*entity == e2); 2 };
        assert!(a.0 == 10 + which as u32 && b.0 == 100 + which as u64);
        a.0 += 1000;
        seen[which] += 1;
        count += 1;
    }
    assert!(count == world.archetype::<ArchFoo>().len());
    assert!(seen[0] == (kill != 0) as u8 && seen[1] == (kill != 1) as u8 && seen[2] == (kill != 2) as u8);
    let mut count2 = 0usize;
    for (entity, a, _b) in world.archetype_mut::<ArchFoo>().iter() {
        let which = if *entity == e0 { 0 } else if *entity == e1 { 1 } else { 2 };
        assert!(a.0 == 1010 + which as u32); // the write made through iter_mut is seen by iter
        count2 += 1;
    }
    assert!(count2 == count);
}
