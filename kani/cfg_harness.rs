// ===== /verif/kani: cfg-decorated declarations and query parameters through the REAL macro chain (copied to tests/ of a scratch copy only) =====
// C16 (bounded stand-in, ONE world declaration, never counted as proved).  The Verus layer decides C16 relative to the table
// `predicate text -> bool` (collection, table building, evaluation, selection, matching are under contract); what it cannot reach
// is the part in between: rustc evaluating each predicate through the generated chain of cfg-probing macros (generate/cfg.rs),
// the order in which the booleans come back, and the per-parameter evaluation inside the query generators.  This harness runs the
// real expansions for every truth pattern of ONE and of TWO STACKED cfg attributes on archetypes, components and query parameters:
// an item is enabled iff EVERY predicate on it is true; a disabled item behaves as if it had not been written (consumes no id,
// restricts no query), an enabled one as if the attribute were absent.
#![cfg(kani)]
use gecs::prelude::*;

pub struct CompA(pub u32);
pub struct CompQ(pub u32);
pub struct CompZ(pub u32);

ecs_world! {
    #[cfg(any())]
    ecs_archetype!(ArchGoneFirst, CompA, CompZ);                 // false: not in the world, consumes no archetype id

    ecs_archetype!(ArchFoo, CompA, #[cfg(any())] CompQ, CompZ);  // disabled component consumes no component id

    #[cfg(all())] #[cfg(any())]
    ecs_archetype!(ArchGoneTf, CompA, CompZ);                    // stacked (true, false): disabled

    #[cfg(all())]
    ecs_archetype!(ArchBar, #[cfg(all())] #[cfg(all())] CompA);  // true predicates behave as absent

    #[cfg(any())] #[cfg(all())]
    ecs_archetype!(ArchGoneFt, CompA, CompZ);                    // stacked (false, true): disabled

    ecs_archetype!(ArchBaz, #[cfg(any())] #[cfg(all())] CompQ, CompA, #[cfg(all())] #[cfg(any())] CompQ, CompQ);
}

#[kani::proof]
#[kani::unwind(5)]
fn world_cfg_single_and_stacked_predicates() {
    // --- declaration side: ids are assigned as if the disabled items had not been written
    assert!(ArchFoo::ARCHETYPE_ID == 0);
    assert!(ArchBar::ARCHETYPE_ID == 1);
    assert!(ArchBaz::ARCHETYPE_ID == 2);
    assert!(ecs_component_id!(CompA, ArchFoo) == 0 && ecs_component_id!(CompZ, ArchFoo) == 1);
    assert!(ecs_component_id!(CompA, ArchBar) == 0);
    assert!(ecs_component_id!(CompA, ArchBaz) == 0 && ecs_component_id!(CompQ, ArchBaz) == 1);

    let mut world = EcsWorld::default();
    let foo = world.create::<ArchFoo>((CompA(1), CompZ(100)));
    let bar = world.create::<ArchBar>((CompA(2),));
    let baz = world.create::<ArchBaz>((CompA(4), CompQ(7)));

    // --- query side, Component parameter CompZ (only ArchFoo has it); bit k of `seen` = the entity with CompA(2^k) was visited
    let mut s_none = 0u32;
    ecs_iter!(world, |a: &CompA| { s_none |= a.0; });
    assert!(s_none == 7);                                        // reference: parameter not written
    let mut s_f = 0u32;
    ecs_iter!(world, |a: &CompA, #[cfg(any())] z: &CompZ| { s_f |= a.0; });
    assert!(s_f == 7);                                           // (false)
    let mut s_t = 0u32;
    ecs_iter!(world, |a: &CompA, #[cfg(all())] z: &CompZ| { s_t |= a.0; assert!(z.0 == 100); });
    assert!(s_t == 1);                                           // (true): restricts to ArchFoo
    let mut s_tf = 0u32;
    ecs_iter!(world, |a: &CompA, #[cfg(all())] #[cfg(any())] z: &CompZ| { s_tf |= a.0; });
    assert!(s_tf == 7);                                          // (true, false): disabled
    let mut s_ft = 0u32;
    ecs_iter!(world, |a: &CompA, #[cfg(any())] #[cfg(all())] z: &CompZ| { s_ft |= a.0; });
    assert!(s_ft == 7);                                          // (false, true): disabled
    let mut s_ff = 0u32;
    ecs_iter_borrow!(world, |a: &CompA, #[cfg(any())] #[cfg(any())] z: &CompZ| { s_ff |= a.0; });
    assert!(s_ff == 7);                                          // (false, false)
    let mut s_tt = 0u32;
    ecs_iter_borrow!(world, |a: &CompA, #[cfg(all())] #[cfg(all())] z: &CompZ| { s_tt |= a.0; assert!(z.0 == 100); });
    assert!(s_tt == 1);                                          // (true, true): enabled

    // --- find: a disabled parameter must not make the lookup miss
    assert!(ecs_find!(world, bar, |a: &CompA, #[cfg(any())] #[cfg(all())] z: &CompZ| a.0) == Some(2));
    assert!(ecs_find!(world, bar, |a: &CompA, #[cfg(all())] #[cfg(any())] z: &CompZ| a.0) == Some(2));
    assert!(ecs_find!(world, EntityAny::from(bar), |a: &CompA, #[cfg(all())] #[cfg(all())] z: &CompZ| a.0).is_none());
    assert!(ecs_find_borrow!(world, EntityAny::from(foo), |a: &CompA, #[cfg(all())] #[cfg(all())] z: &CompZ| a.0 + z.0) == Some(101));

    // --- Entity<A> / EntityDirect<A> parameters restrict to A only when enabled
    let mut e_ft = 0u32;
    ecs_iter!(world, |a: &CompA, #[cfg(any())] #[cfg(all())] e: &Entity<ArchFoo>| { e_ft |= a.0; });
    assert!(e_ft == 7);
    let mut e_tt = 0u32;
    ecs_iter!(world, |a: &CompA, #[cfg(all())] #[cfg(all())] e: &Entity<ArchFoo>| { e_tt |= a.0; assert!(*e == foo); });
    assert!(e_tt == 1);
    let mut d_tf = 0u32;
    ecs_iter!(world, |a: &CompA, #[cfg(all())] #[cfg(any())] d: &EntityDirect<ArchBaz>| { d_tf |= a.0; });
    assert!(d_tf == 7);
    let mut d_t = 0u32;
    ecs_iter!(world, |a: &CompA, #[cfg(all())] d: &EntityDirect<ArchBaz>| { d_t |= a.0; });
    assert!(d_t == 4);

    // --- iter_destroy: a disabled parameter must not protect archetypes from the query
    let mut n = 0u8;
    ecs_iter_destroy!(world, |_a: &CompA, #[cfg(any())] #[cfg(all())] z: &CompZ| { n += 1; EcsStepDestroy::ContinueDestroy });
    assert!(n == 3);
    assert!(!world.contains(foo) && !world.contains(bar) && !world.contains(baz));
}
