// ===== /verif/kani: Iterator methods other than next() on Archetype::iter / iter_mut (copied to tests/ of a scratch copy only) =====
// C06 / C02 (bounded: 4 creations, 1 removal -> len 3 inside capacity 6; symbolic k <= 4).  The step contract (iter_step_harness.rs)
// is about next(); every other Iterator method is a default method defined through next() -- unless iter.rs overrides it.  This
// harness drives the real iterators through skip / nth / count / size_hint and compares with the slice accessors: exactly the live
// rows, each once, each with its own handle; never a row at or beyond len().
#![cfg(kani)]
use gecs::prelude::*;

pub struct CompA(pub u32);
pub struct CompB(pub u64);

ecs_world! {
    ecs_archetype!(ArchFoo, CompA, CompB);
}

#[kani::proof]
#[kani::unwind(6)]
fn archetype_iter_adaptors_len3() {
    let mut world = EcsWorld::default();
    let e0 = world.create::<ArchFoo>((CompA(10), CompB(100)));
    let e1 = world.create::<ArchFoo>((CompA(11), CompB(101)));
    let e2 = world.create::<ArchFoo>((CompA(12), CompB(102)));
    let e3 = world.create::<ArchFoo>((CompA(13), CompB(103)));
    world.destroy(e3);
    let handles = [e0, e1, e2];
    let k: usize = kani::any();
    kani::assume(k <= 4);
    let arch = world.archetype_mut::<ArchFoo>();
    assert!(arch.len() == 3 && arch.capacity() > 3);

    // skip(k): exactly the rows k..3
    let mut n = 0usize;
    for (e, a, b) in arch.iter_mut().skip(k) {
        assert!(k + n < 3);
        assert!(*e == handles[k + n] && a.0 == 10 + (k + n) as u32 && b.0 == 100 + (k + n) as u64);
        n += 1;
    }
    assert!(n == if k <= 3 { 3 - k } else { 0 });

    // nth(k), then the rest
    {
        let mut it = arch.iter_mut();
        let (lo, hi) = it.size_hint();
        assert!(lo <= 3 && hi.map_or(true, |h| h >= 3));
        match it.nth(k) {
            Some((e, a, _)) => { assert!(k < 3 && *e == handles[k] && a.0 == 10 + k as u32); }
            None => { assert!(k >= 3); }
        }
        let rest = it.count();
        assert!(rest == if k < 3 { 2 - k } else { 0 });
    }
    {
        let mut it = arch.iter();
        match it.nth(k) {
            Some((e, _, b)) => { assert!(k < 3 && *e == handles[k] && b.0 == 100 + k as u64); }
            None => { assert!(k >= 3); }
        }
        match it.next() {
            Some((e, _, _)) => { assert!(k + 1 < 3 && *e == handles[k + 1]); }
            None => { assert!(k + 1 >= 3); }
        }
    }
}
