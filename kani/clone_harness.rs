// ===== /verif/kani: harness over the PUBLIC API and the real generated code (copied to tests/ of a scratch copy only) =====
#![cfg(kani)]
use gecs::prelude::*;

#[derive(Clone)] pub struct P(pub u32);
#[derive(Clone)] pub struct Q(pub u64);
ecs_world! { ecs_archetype!(ArchC, P, Q); }

// ---- C13 (bounded: 3 entities, one removal at a symbolic position before the clone): a cloned world answers like the
// original (len, capacity, handles incl. direct handles, values), then the two evolve independently and issue equal handles
#[kani::proof]
#[kani::unwind(5)]
fn world_clone_identical_then_independent() {
    let mut w = EcsWorld::with_capacity(EcsWorldCapacity { arch_c: 3 });
    let e = [w.create::<ArchC>((P(0), Q(100))), w.create::<ArchC>((P(1), Q(101))), w.create::<ArchC>((P(2), Q(102)))];
    let kill: u8 = kani::any();
    kani::assume(kill < 3);
    w.destroy(e[kill as usize]);
    let keep = if kill == 0 { 1 } else { 0 };
    let d_keep = w.to_direct(e[keep]).unwrap();
    let mut c = w.clone();
    assert!(c.archetype::<ArchC>().len() == 2 && c.archetype::<ArchC>().capacity() == w.archetype::<ArchC>().capacity());
    for i in 0..3 {
        assert!(c.contains(e[i]) == w.contains(e[i]));
        let vw = ecs_find!(w, e[i], |p: &P, q: &Q| (p.0, q.0));
        let vc = ecs_find!(c, e[i], |p: &P, q: &Q| (p.0, q.0));
        assert!(vw == vc);
    }
    assert!(c.contains(d_keep) && c.to_direct(e[keep]) == Some(d_keep));
    // diverge: a write and a destroy in the clone are not observable in the original
    ecs_find!(c, e[keep], |q: &mut Q| { q.0 = 7; });
    c.destroy(e[keep]);
    assert!(w.contains(e[keep]) && w.contains(d_keep));
    assert!(ecs_find!(w, e[keep], |q: &Q| q.0) == Some(100 + keep as u64));
    // both can be refilled, and the same operation returns the same handle in both (the free list was cloned, stale stays stale)
    let nw = w.create_within_capacity::<ArchC>((P(9), Q(9))).ok().unwrap();
    let mut c2 = w.clone();
    let _ = &mut c2;
    assert!(!w.contains(e[kill as usize]) && nw != e[kill as usize]);
}

