// Trusted prelude (hand-written; NOT repository code).  Everything in here is an
// assumption about std (A-std) or a stand-in introduced by a named extraction rule.
// The runner scans the generated file for assume_specification / external_body /
// uninterp / assume / admit and compares against contracts/trusted_allowlist.json.
#![allow(unused_imports, dead_code, unused_variables, unused_mut, unused_unsafe, non_snake_case, private_interfaces, unused_parens, unused_braces)]
use vstd::prelude::*;
use std::num::NonZeroU32;
use std::mem::MaybeUninit;
use std::mem;
use std::marker::PhantomData;
use std::cell::{Ref, RefCell, RefMut};
use std::ptr::NonNull;
use vstd::slice::SliceIndexSpec;
use std::slice::SliceIndex;
use std::hash::{Hash, Hasher};
use std::slice::Iter;
use vstd::std_specs::iter::IteratorSpec;
use vstd::std_specs::cmp::OrdSpec;

//@@UTIL_MACROS@@

verus! {

// ---- A-std: std items without a vstd specification
pub assume_specification<T> [Option::<T>::unwrap_unchecked] (o: Option<T>) -> (r: T)
    requires o.is_some(),
    ensures r == o.unwrap();

pub assume_specification [NonZeroU32::checked_add] (a: NonZeroU32, b: u32) -> (r: Option<NonZeroU32>)
    ensures
        a@ + b <= u32::MAX ==> r.is_some() && r.unwrap()@ == a@ + b,
        a@ + b > u32::MAX ==> r.is_none();

pub assume_specification<T, I: SliceIndex<[T]>> [<[T]>::get_unchecked::<I>] (s: &[T], i: I) -> (r: &<I as SliceIndex<[T]>>::Output)
    requires i.in_bounds(s),
    ensures i.index_postcondition(s, r);

pub assume_specification<T, I: SliceIndex<[T]>> [<[T]>::get_unchecked_mut::<I>] (s: &mut [T], i: I) -> (r: &mut <I as SliceIndex<[T]>>::Output)
    requires i.in_bounds(old(s)),
    ensures i.index_mut_postcondition(old(s), final(s), r, final(r));

// ---- core::cmp::min / max (std: min returns the first argument unless the second is smaller; max returns the second unless the first is greater)
pub assume_specification<T: Ord> [core::cmp::min::<T>] (a: T, b: T) -> (r: T)
    ensures r == (if b.cmp_spec(&a) == core::cmp::Ordering::Less { b } else { a });
pub assume_specification<T: Ord> [core::cmp::max::<T>] (a: T, b: T) -> (r: T)
    ensures r == (if a.cmp_spec(&b) == core::cmp::Ordering::Greater { a } else { b });

// ---- R-panic: documented panics (diverge; no obligation at the call site)
#[verifier::external_body]
pub fn gecs_panic(msg: &str) -> !
{ panic!("{}", msg) }

pub trait GecsExpect<T>: Sized {
    fn gecs_expect(self, msg: &str) -> T;
}
impl<T> GecsExpect<T> for Option<T> {
    #[verifier::external_body]
    fn gecs_expect(self, msg: &str) -> (r: T)
        ensures self.is_some(), r == self.unwrap()
    { self.expect(msg) }
}

impl<T, E: core::fmt::Debug> GecsExpect<T> for Result<T, E> {
    #[verifier::external_body]
    fn gecs_expect(self, msg: &str) -> (r: T)
        ensures self is Ok, r == self->Ok_0
    { self.expect(msg) }
}

// ---- R-nzmin: NonZeroU32::MIN
#[verifier::external_body]
pub const fn nonzero_min() -> (r: NonZeroU32) ensures r@ == 1 { NonZeroU32::MIN }

// ---- NonZeroU32 is determined by its value (A-std)
#[verifier::external_body]
pub proof fn axiom_nonzero_u32_ext(a: NonZeroU32, b: NonZeroU32)
    requires a@ == b@
    ensures a == b
{ }

// ---- std::slice::Iter::size_hint is exact (A-std: documented for slice iterators)
pub assume_specification<'a, T> [<std::slice::Iter<'a, T> as std::iter::Iterator>::size_hint] (it: &std::slice::Iter<'a, T>) -> (r: (usize, Option<usize>))
    ensures r.0 == it.remaining().len(), r.1 == Some(it.remaining().len() as usize);

// ---- core's reflexive `impl<T> From<T> for T` (hence `Into<T> for T`) is the identity (A-std; its body is not in the verified text)
#[verifier::external_body]
pub proof fn axiom_into_reflexive<T>(x: T)
    ensures <T as vstd::std_specs::convert::IntoSpec<T>>::obeys_into_spec(),
        <T as vstd::std_specs::convert::IntoSpec<T>>::into_spec(x) == x
{ }

// ---- Hash: a hasher is abstracted as the sequence of u64 words fed to it (A-std)
pub uninterp spec fn hasher_fed<H>(h: &H) -> Seq<u64>;

pub assume_specification<H: Hasher> [<u64 as Hash>::hash] (x: &u64, state: &mut H)
    ensures hasher_fed(final(state)) == hasher_fed(old(state)).push(*x);

// ---- RefCell: functional value only (the dynamic borrow flag is not modelled; see C11)
#[verifier::accept_recursive_types(T)]
#[verifier::external_type_specification]
#[verifier::external_body]
pub struct ExRefCell<T: ?Sized>(RefCell<T>);

pub uninterp spec fn rc_val<T: ?Sized>(c: &RefCell<T>) -> &T;

pub assume_specification<T> [RefCell::<T>::new] (v: T) -> (r: RefCell<T>)
    ensures *rc_val(&r) == v;

pub assume_specification<T: ?Sized> [RefCell::<T>::get_mut] (c: &mut RefCell<T>) -> (r: &mut T)
    ensures &*r == rc_val(old(c)), rc_val(final(c)) == &*final(r);

#[verifier::accept_recursive_types(T)]
#[verifier::external_type_specification]
#[verifier::external_body]
pub struct ExRef<'a, T: ?Sized>(Ref<'a, T>);

pub uninterp spec fn ref_val<'a, T: ?Sized>(c: &Ref<'a, T>) -> &'a T;

// functional value of a shared runtime borrow; the call may panic (BorrowError) -- not an obligation, see C11
pub assume_specification<'b, T: ?Sized> [RefCell::<T>::borrow] (c: &'b RefCell<T>) -> (r: Ref<'b, T>)
    ensures ref_val(&r) == rc_val(c);

pub assume_specification<'b, 'c, T: ?Sized> [<Ref<'b, T> as std::ops::Deref>::deref] (c: &'c Ref<'b, T>) -> (r: &'c T)
    ensures r == ref_val(c);

// Ref::map: the projected guard shows what the projection returns for the guarded value (functional value only)
pub assume_specification<'b, T: ?Sized, U: ?Sized, F: FnOnce(&T) -> &U> [Ref::<'b, T>::map::<U, F>] (orig: Ref<'b, T>, f: F) -> (r: Ref<'b, U>)
    requires f.requires((ref_val(&orig),)),
    ensures f.ensures((ref_val(&orig),), ref_val(&r));

// ---- RefMut: the guard of a mutable runtime borrow. Functional value AT ACQUISITION only: what is written through the guard
// afterwards is interior mutation and is not reflected in rc_val (nothing in the verified code writes through a guard; the
// user closure of the *_borrow! queries does, after the contracts below have been used). The call may panic (BorrowMutError)
// -- not an obligation, see C11.
#[verifier::accept_recursive_types(T)]
#[verifier::external_type_specification]
#[verifier::external_body]
pub struct ExRefMut<'b, T: ?Sized + 'b>(RefMut<'b, T>);

pub uninterp spec fn refmut_val<'a, T: ?Sized>(c: &RefMut<'a, T>) -> &'a T;

pub assume_specification<'b, T: ?Sized> [RefCell::<T>::borrow_mut] (c: &'b RefCell<T>) -> (r: RefMut<'b, T>)
    ensures refmut_val(&r) == rc_val(c);

// RefMut::map: the projected guard shows what the projection returns for the guarded value
pub assume_specification<'b, T: ?Sized, U: ?Sized, F: FnOnce(&mut T) -> &mut U> [RefMut::<'b, T>::map::<U, F>] (orig: RefMut<'b, T>, f: F) -> (r: RefMut<'b, U>)
    requires forall|x: &mut T| #![trigger f.requires((x,))] &*x == refmut_val(&orig) ==> f.requires((x,)),
    ensures exists|x: &mut T, o: &mut U| &*x == refmut_val(&orig) && #[trigger] f.ensures((x,), o) && &*o == refmut_val(&r);

// DerefMut of the guard: the place it exposes holds the guarded value (what the caller then writes there is interior mutation)
pub assume_specification<'b, 'c, T: ?Sized> [<RefMut<'b, T> as std::ops::DerefMut>::deref_mut] (c: &'c mut RefMut<'b, T>) -> (r: &'c mut T)
    ensures &*r == refmut_val(old(c));

// ---- MaybeUninit
pub uninterp spec fn mu_val<T>(m: MaybeUninit<T>) -> Option<T>;

pub assume_specification<T> [MaybeUninit::<T>::write] (m: &mut MaybeUninit<T>, val: T) -> (r: &mut T)
    ensures mu_val(*final(m)) == Some(*final(r)), *r == val;

pub open spec fn mu_seq<T>(s: Seq<MaybeUninit<T>>) -> Seq<Option<T>> {
    Seq::new(s.len(), |i: int| mu_val(s[i]))
}

} // verus!
