// R-traits: reduced stand-in for `trait Archetype` of src/traits.rs (hand-written).
// Only the members the extracted functions use are kept; the dropped members (GATs for
// views/iterators/slices, the accessor methods implemented by *generated* code) are unused
// by verified code.
pub trait Archetype: Sized {
    const ARCHETYPE_ID: ArchetypeId;
    type Components;
}
