// R-tmpl schema (hand-written MODEL of what ecs_world! generates for this declaration; assumption A-gen-arch):
//
//     ecs_world! { #[archetype_id(7)] ecs_archetype!(ArchA, CompX, CompY);  ecs_archetype!(ArchB, CompX, CompZ); }
//
// The generated archetype is a #[repr(transparent)] wrapper `{ pub data: StorageN<..> }` whose methods delegate 1:1 to the
// storage (macros/src/generate/world.rs:786-1220).  build.TMPL_DELEGATION_CHECKS verifies on every run that the generator's
// quote! text still contains exactly these delegations; if it does not, the check exits 2 (model out of date), never alarms.
// The component types are opaque (nothing is known about them), so the harnesses hold for any component types.

#[verifier::external_body]
pub struct CompX { _x: u64 }
#[verifier::external_body]
pub struct CompY { _y: u32 }
#[verifier::external_body]
pub struct CompZ { _z: u8 }

// R-tmpl-tag: the real generated struct is `pub struct ArchA { pub data: StorageN<ArchA, ..> }` and implements Archetype itself.
// Verus rejects that shape (a datatype whose field type needs a trait impl of the datatype itself: "cyclic self-reference"),
// so the model uses a separate marker type for the archetype parameter.  The parameter only carries ARCHETYPE_ID and Components.
pub struct ArchATag;
pub struct ArchBTag;
pub struct ArchA { pub data: Storage2<ArchATag, CompX, CompY> }
pub struct ArchB { pub data: Storage2<ArchBTag, CompX, CompZ> }

impl Archetype for ArchATag { const ARCHETYPE_ID: ArchetypeId = 7; type Components = ArchAComponents; }
impl Archetype for ArchBTag { const ARCHETYPE_ID: ArchetypeId = 8; type Components = ArchBComponents; }

pub struct ArchAComponents { pub comp_x: CompX, pub comp_y: CompY }
pub struct ArchBComponents { pub comp_x: CompX, pub comp_z: CompZ }

impl Components2<CompX, CompY> for ArchAComponents {
    open spec fn c0(&self) -> CompX { self.comp_x }
    open spec fn c1(&self) -> CompY { self.comp_y }
    fn raw_new(comp_x: CompX, comp_y: CompY) -> Self { Self { comp_x, comp_y } }
    fn raw_get(self) -> (CompX, CompY) { (self.comp_x, self.comp_y) }
}
impl Components2<CompX, CompZ> for ArchBComponents {
    open spec fn c0(&self) -> CompX { self.comp_x }
    open spec fn c1(&self) -> CompZ { self.comp_z }
    fn raw_new(comp_x: CompX, comp_z: CompZ) -> Self { Self { comp_x, comp_z } }
    fn raw_get(self) -> (CompX, CompZ) { (self.comp_x, self.comp_z) }
}

pub struct ArchASlices<'a> { pub entity: &'a [Entity<ArchATag>], pub comp_x: &'a mut [CompX], pub comp_y: &'a mut [CompY] }
pub struct ArchBSlices<'a> { pub entity: &'a [Entity<ArchBTag>], pub comp_x: &'a mut [CompX], pub comp_z: &'a mut [CompZ] }

impl<'a> Slices2<'a, ArchATag, CompX, CompY> for ArchASlices<'a> {
    open spec fn sl_ents(&self) -> Seq<Entity<ArchATag>> { self.entity@ }
    open spec fn sl_cur0(&self) -> Seq<CompX> { self.comp_x@ }
    #[verifier::prophetic]
    open spec fn sl_fin0(&self) -> Seq<CompX> { final(self.comp_x)@ }
    open spec fn sl_cur1(&self) -> Seq<CompY> { self.comp_y@ }
    #[verifier::prophetic]
    open spec fn sl_fin1(&self) -> Seq<CompY> { final(self.comp_y)@ }
    fn new(entity: &'a [Entity<ArchATag>], comp_x: &'a mut [CompX], comp_y: &'a mut [CompY]) -> Self { Self { entity, comp_x, comp_y } }
}
impl<'a> Slices2<'a, ArchBTag, CompX, CompZ> for ArchBSlices<'a> {
    open spec fn sl_ents(&self) -> Seq<Entity<ArchBTag>> { self.entity@ }
    open spec fn sl_cur0(&self) -> Seq<CompX> { self.comp_x@ }
    #[verifier::prophetic]
    open spec fn sl_fin0(&self) -> Seq<CompX> { final(self.comp_x)@ }
    open spec fn sl_cur1(&self) -> Seq<CompZ> { self.comp_z@ }
    #[verifier::prophetic]
    open spec fn sl_fin1(&self) -> Seq<CompZ> { final(self.comp_z)@ }
    fn new(entity: &'a [Entity<ArchBTag>], comp_x: &'a mut [CompX], comp_z: &'a mut [CompZ]) -> Self { Self { entity, comp_x, comp_z } }
}

impl ArchA {
    pub fn len(&self) -> (r: usize)
        ensures r == self.data.s_len()
    { self.data.len() }
    pub fn version(&self) -> (r: ArchetypeVersion)
        ensures r.v() == self.data.s_ver()
    { self.data.version() }
    pub fn entities(&self) -> (r: &[Entity<ArchATag>])
        requires self.data.wf()
        ensures r@.len() == self.data.s_len(), forall|i: int| 0 <= i < self.data.s_len() ==> #[trigger] r@[i] == self.data.s_ents()[i]->0
    { self.data.get_slice_entities() }
    pub fn get_all_slices_mut(&mut self) -> (r: ArchASlices<'_>)
        requires old(self).data.wf()
        ensures final(self).data.wf(),
            Storage2::<ArchATag, CompX, CompY>::same_frame(&old(self).data, &final(self).data),
            r.entity@.len() == old(self).data.s_len(),
            forall|i: int| 0 <= i < old(self).data.s_len() ==> #[trigger] r.entity@[i] == old(self).data.s_ents()[i]->0,
            r.comp_x@.len() == old(self).data.s_len(), r.comp_y@.len() == old(self).data.s_len(),
            forall|i: int| 0 <= i < old(self).data.s_len() ==> #[trigger] r.comp_x@[i] == old(self).data.s_d0()[i]->0,
            forall|i: int| 0 <= i < old(self).data.s_len() ==> #[trigger] r.comp_y@[i] == old(self).data.s_d1()[i]->0,
            final(r.comp_x)@.len() == old(self).data.s_len(), final(r.comp_y)@.len() == old(self).data.s_len(),
            final(self).data.s_d0().len() == old(self).data.s_d0().len(), final(self).data.s_d1().len() == old(self).data.s_d1().len(),
            forall|i: int| 0 <= i < old(self).data.s_len() ==> #[trigger] final(self).data.s_d0()[i] == Some(final(r.comp_x)@[i]),
            forall|i: int| 0 <= i < old(self).data.s_len() ==> #[trigger] final(self).data.s_d1()[i] == Some(final(r.comp_y)@[i]),
            forall|i: int| old(self).data.s_len() <= i < old(self).data.s_cap() ==> #[trigger] final(self).data.s_d0()[i] == old(self).data.s_d0()[i],
            forall|i: int| old(self).data.s_len() <= i < old(self).data.s_cap() ==> #[trigger] final(self).data.s_d1()[i] == old(self).data.s_d1()[i],
    { self.data.get_all_slices_mut() }
    pub fn destroy(&mut self, entity: Entity<ArchATag>) -> (r: Option<ArchAComponents>)
        requires old(self).data.wf()
        ensures final(self).data.wf(),
            <Storage2<ArchATag, CompX, CompY> as StorageCanResolve<Entity<ArchATag>>>::scr_destroy_post(&old(self).data, &final(self).data, entity, r),
    { self.data.destroy(entity) }
}

impl ArchB {
    pub fn len(&self) -> (r: usize)
        ensures r == self.data.s_len()
    { self.data.len() }
    pub fn version(&self) -> (r: ArchetypeVersion)
        ensures r.v() == self.data.s_ver()
    { self.data.version() }
    pub fn entities(&self) -> (r: &[Entity<ArchBTag>])
        requires self.data.wf()
        ensures r@.len() == self.data.s_len(), forall|i: int| 0 <= i < self.data.s_len() ==> #[trigger] r@[i] == self.data.s_ents()[i]->0
    { self.data.get_slice_entities() }
    pub fn get_all_slices_mut(&mut self) -> (r: ArchBSlices<'_>)
        requires old(self).data.wf()
        ensures final(self).data.wf(),
            Storage2::<ArchBTag, CompX, CompZ>::same_frame(&old(self).data, &final(self).data),
            r.entity@.len() == old(self).data.s_len(),
            forall|i: int| 0 <= i < old(self).data.s_len() ==> #[trigger] r.entity@[i] == old(self).data.s_ents()[i]->0,
            r.comp_x@.len() == old(self).data.s_len(), r.comp_z@.len() == old(self).data.s_len(),
            forall|i: int| 0 <= i < old(self).data.s_len() ==> #[trigger] r.comp_x@[i] == old(self).data.s_d0()[i]->0,
            forall|i: int| 0 <= i < old(self).data.s_len() ==> #[trigger] r.comp_z@[i] == old(self).data.s_d1()[i]->0,
            final(r.comp_x)@.len() == old(self).data.s_len(), final(r.comp_z)@.len() == old(self).data.s_len(),
            final(self).data.s_d0().len() == old(self).data.s_d0().len(), final(self).data.s_d1().len() == old(self).data.s_d1().len(),
            forall|i: int| 0 <= i < old(self).data.s_len() ==> #[trigger] final(self).data.s_d0()[i] == Some(final(r.comp_x)@[i]),
            forall|i: int| 0 <= i < old(self).data.s_len() ==> #[trigger] final(self).data.s_d1()[i] == Some(final(r.comp_z)@[i]),
            forall|i: int| old(self).data.s_len() <= i < old(self).data.s_cap() ==> #[trigger] final(self).data.s_d0()[i] == old(self).data.s_d0()[i],
            forall|i: int| old(self).data.s_len() <= i < old(self).data.s_cap() ==> #[trigger] final(self).data.s_d1()[i] == old(self).data.s_d1()[i],
    { self.data.get_all_slices_mut() }
    pub fn destroy(&mut self, entity: Entity<ArchBTag>) -> (r: Option<ArchBComponents>)
        requires old(self).data.wf()
        ensures final(self).data.wf(),
            <Storage2<ArchBTag, CompX, CompZ> as StorageCanResolve<Entity<ArchBTag>>>::scr_destroy_post(&old(self).data, &final(self).data, entity, r),
    { self.data.destroy(entity) }
}

pub struct WorldS { pub arch_a: ArchA, pub arch_b: ArchB }

/// one closure invocation as recorded in the ghost trace of a template harness
pub struct Visit { pub sidx: nat, pub ver: nat, pub destroy: bool, pub brk: bool }
