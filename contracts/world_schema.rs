// Component types of the schema
//
//     ecs_world! { ecs_name!(WorldS); #[archetype_id(7)] ecs_archetype!(ArchA, CompX, CompY); #[archetype_id(3)] ecs_archetype!(ArchB, CompX, CompZ); }
//
// They are opaque: nothing is known about them except that they are Clone with an arbitrary (unspecified) clone, so whatever is
// proved about the generated code holds for any component types.
#[verifier::external_body]
pub struct CompX { _x: u64 }
#[verifier::external_body]
pub struct CompY { _y: u32 }
#[verifier::external_body]
pub struct CompZ { _z: u8 }
impl Clone for CompX { #[verifier::external_body] fn clone(&self) -> Self { unimplemented!() } }
impl Clone for CompY { #[verifier::external_body] fn clone(&self) -> Self { unimplemented!() } }
impl Clone for CompZ { #[verifier::external_body] fn clone(&self) -> Self { unimplemented!() } }
