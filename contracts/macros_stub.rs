// R-syn: stand-ins for the dependency types of the macros crate (syn / proc_macro2). Hand-written; assumed (A-dep):
// an identifier / token stream is abstracted by its text; to_string() is a function of that text; clone preserves it.
#![allow(unused_imports, dead_code, unused_variables, unused_mut, non_snake_case, unused_parens)]
use vstd::prelude::*;
use std::collections::HashMap;
use std::collections::HashSet;

mod syn {
    use vstd::prelude::*;
    verus! {
    #[verifier::external_body]
    pub struct Span;
    #[verifier::external_body]
    pub struct Ident { name: String }
    #[verifier::external_body]
    pub struct Error { msg: String }
    #[verifier::external_body]
    pub struct TokenStream { s: String }
    pub type Result<T> = std::result::Result<T, Error>;
    impl Ident {
        pub uninterp spec fn text(&self) -> Seq<char>;
        #[verifier::external_body]
        pub fn span(&self) -> Span { Span }
        #[verifier::external_body]
        pub fn to_string(&self) -> (r: String) ensures r@ == self.text() { self.name.clone() }
    }
    impl Clone for Ident {
        #[verifier::external_body]
        fn clone(&self) -> (r: Ident) ensures r.text() == self.text() { Ident { name: self.name.clone() } }
    }
    impl TokenStream {
        pub uninterp spec fn text(&self) -> Seq<char>;
        #[verifier::external_body]
        pub fn to_string(&self) -> (r: String) ensures r@ == self.text() { self.s.clone() }
    }
    impl Clone for TokenStream {
        #[verifier::external_body]
        fn clone(&self) -> (r: TokenStream) ensures r.text() == self.text() { TokenStream { s: self.s.clone() } }
    }
    impl Error {
        #[verifier::external_body]
        pub fn new<T: std::fmt::Display>(span: Span, message: T) -> Error { Error { msg: message.to_string() } }
    }
    }
}
use syn::{Ident, TokenStream};

verus! {
// A-std: String is a well-behaved HashMap key (vstd has this axiom for the primitive types only)
#[verifier::external_body]
pub broadcast proof fn axiom_string_obeys_key_model()
    ensures #[trigger] vstd::std_specs::hash::obeys_key_model::<String>()
{ }

// A-std: a String is determined by its content (implied by the key-model assumption above: String's Eq/Hash are by content)
#[verifier::external_body]
pub proof fn axiom_string_ext(a: String, b: String)
    requires a@ == b@
    ensures a == b
{ }

// R-panic: documented panics / consistency guards (diverge; no obligation at the call site)
#[verifier::external_body]
pub fn gecs_panic(msg: &str) -> !
{ panic!("{}", msg) }

// R-emit: opaque token values (the CONTENT of emitted token streams is outside the claim)
#[verifier::external_body]
pub fn gv_tokens() -> TokenStream { unimplemented!() }
#[verifier::external_body]
pub fn gv_error() -> syn::Error { unimplemented!() }

// R-drain: `v.drain(..)` (full range, consumed by a for loop) -> gecs_drain_all(&mut v): the elements in order, v left empty
#[verifier::external_body]
pub fn gecs_drain_all<T>(v: &mut Vec<T>) -> (r: Vec<T>)
    ensures r@ == old(v)@, final(v)@.len() == 0
{ std::mem::take(v) }
} // verus!
