/// one closure invocation as recorded in the ghost trace of a template harness
pub struct Visit { pub sidx: nat, pub ver: nat, pub destroy: bool, pub brk: bool }
