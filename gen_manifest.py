#!/usr/bin/env python3
"""Writes MANIFEST.json from the table below (kept as code so that it stays consistent with gv/props.py)."""
import json

CLAIMED = {
 'C01': ('proof', 'Verus proves, on the real bodies of StorageN (N columns), slot.rs, version.rs, entity.rs, that every mutator preserves the representation invariant wf() and that resolve_entity/resolve_direct and all StorageCanResolve paths accept a handle iff its (slot, generation) designates a live row, returning that row; history lemmas (contracts/storage.vsp: step_*) lift this to all histories. Unbounded in history length, capacity, reuse count. The generated archetype/world layer (the code ecs_world! emits for a two-archetype schema, obtained by evaluating the generator functions of macros/src/generate/world.rs as text: R-quote) and the default methods of traits Archetype/World are verified too: every lookup path (contains, resolve, to_direct, view, borrow, destroy, ecs_find! with the user closure as an unspecified stand-in) for the four key kinds resolves iff the storage of the key\'s archetype resolves the key, dynamically typed keys dispatch on the archetype id, every other archetype is untouched.',
         'contract-based deductive verification (Verus) of the real storage code + history lemmas over the contracts', '7 C01'),
 'C02': ('proof', 'Whole-view frame postconditions (create_post/destroy_post/grow/accessors) proved by Verus for every column K of StorageN: create writes data.cK at row len of every column, destroy applies ONE permutation to the handle array and to all columns and returns old row d, accessors expose column K cut to len, writes change exactly one cell. The generated archetype/world layer (the code ecs_world! emits for a two-archetype schema, obtained by evaluating the generator functions of macros/src/generate/world.rs as text: R-quote) and the default methods of traits Archetype/World are verified too: create stores into_spec(components) field by field, the view/slices/borrow structs expose the named columns in order, ecs_find! hands the closure the found row\'s own handle and cell and changes nothing else.',
         'contract-based deductive verification (Verus): frame postconditions over the whole abstract view', '7 C02'),
 'C03': ('proof', 'Every unsafe callee precondition (get_unchecked in_bounds, unwrap_unchecked is_some, DataPtr slice/write/swap_remove) and every debug_checked_assume!/debug_assert! is discharged under wf() alone for ARBITRARY handle bits; "never matches by accident" is the Some ==> live-row postcondition. One recorded known finding (release-profile from_any_unchecked). The generated archetype/world layer (the code ecs_world! emits for a two-archetype schema, obtained by evaluating the generator functions of macros/src/generate/world.rs as text: R-quote) and the default methods of traits Archetype/World are verified too: a dynamically typed key whose archetype id is not the archetype\'s (or none of the world\'s) is never accepted: absence or the documented panic; every from_any_unchecked call in generated code carries the obligation that the id was checked.',
         'contract-based deductive verification (Verus): safety preconditions of all unsafe calls under the representation invariant', '7 C03'),
 'C04': ('proof', 'Linear ownership view cells(): Seq<Option<T>> of every column: write requires None, swap_remove/slice require Some, drop_to(len) requires all Some below len, drop_body frees every array, failed push_within_capacity returns its argument with *self unchanged, clone makes exactly one clone per live cell.',
         'contract-based deductive verification (Verus) over a linear ghost ownership view of the columns', '7 C04'),
 'C05': ('proof', 'The binding logic of all five query macros (macros/src/generate/query.rs: bind_query_params, bind_one_of; data.rs: contains_component; real bodies, syn types stubbed) is verified against the property statement: an archetype gets an entry iff EVERY parameter binds in it (component present / archetype name equal / wildcard and dynamic entity parameters always / cfg-disabled parameters always / OneOf: exactly one argument present), the entry is the parameter list with each OneOf replaced by the one present component, and an error is returned iff some OneOf is ambiguous for some archetype (or carries cfg attributes). Partial claim: that the emitted token stream dispatches as bound, "query matched no archetypes" and the compile-time rejection reaching the user are outside (rustc/syn). The emission skeletons of generate_query_find / generate_query_iter / generate_query_iter_destroy (mechanical slices of the real functions: binding call, archetype loop, table lookup, push, final if/else; pure token-building lets dropped after a syntactic purity check) are verified too: Ok implies a block is emitted for exactly the archetypes in which every parameter binds (each once, in world order) and at least one; Err implies an ambiguous or cfg-decorated OneOf, or that no archetype binds.',
         'contract-based deductive verification (Verus) of the query-parameter binding functions', '7 C05'),
 'C06': ('proof', 'Slice accessors have length len() and content rows 0..len of the right column with the matching handle (Verus, all N columns).',
         'contract-based deductive verification (Verus) of slice accessors', '7 C06'),
 'C07': ('proof', 'The ecs_iter_destroy! template of macros/src/generate/query.rs is instantiated (R-tmpl, text of the quote! block, holes filled for a two-archetype schema) and its reverse loop verified by Verus with a ghost invocation trace: the j-th closure invocation is for the entity that sat in row len-1-j when the loop started (each original entity exactly once), exactly the flagged ones are destroyed (len decreases by the number of destroy decisions, rows not yet visited are untouched: handle, values, position), Break/BreakDestroy return at once also across archetypes, and the handle / direct handle / component cell passed to the closure are the visited row\'s own (direct handle minted at the current archetype version).  The archetype methods the template calls (get_all_slices_mut, destroy, len, version) are the code section_archetype() generates for the schema (R-quote), verified in the same unit.',
         'contract-based deductive verification (Verus) of the instantiated ecs_iter_destroy! template over the storage contracts', '7 C07'),
 'C08': ('proof', 'create_post: the returned handle carries the generation of a slot that was FREE; generations only change in release (+1, never wraps in the default configuration because next() panics first); archetype id is packed into every handle. Freshness for all histories by lemma step_create.',
         'contract-based deductive verification (Verus): freshness postcondition of create + generation monotonicity', '7 C08'),
 'C09': ('proof', 'resolve_direct iff-contract (accepted iff version equal and index < len), archetype version +1 on every destroy and unchanged otherwise, to_direct mints (dense index, current version). The generated archetype/world layer (the code ecs_world! emits for a two-archetype schema, obtained by evaluating the generator functions of macros/src/generate/world.rs as text: R-quote) and the default methods of traits Archetype/World are verified too: to_direct / direct-key lookups at archetype and world level are the storage\'s; ecs_find! mints the direct handle for the found row at the current archetype version.',
         'contract-based deductive verification (Verus) of the direct-handle functions', '7 C09'),
 'C10': ('proof', 'R-unwind ghost flag: before every call that can raise a documented panic inside a &mut self storage method Verus proves that no field of self has been written or mutably borrowed since entry (so unwinding starts from the well-formed entry state). Scoped: callbacks and allocation panics are argued in DESIGN.md, not proved. Query closures: in the instantiated ecs_find!/ecs_iter!/*_borrow!/ecs_iter_destroy! templates the closure stand-in is only invoked between complete operations of the safe archetype API, and at each invocation the storage a panic would unwind from is proved wf() (explicit obligations).',
         'contract-based deductive verification (Verus) of a mechanical unwind-flag discipline', '7 C10'),
 'C12': ('proof', 'len/is_empty/capacity contracts; with_capacity; grow (monotone, capped at 2^24, false only at the limit with state unchanged); push panics only at 2^24 with state untouched; push_within_capacity Ok iff len < cap, capacity unchanged, Err returns the argument; free chain of length cap-len inside wf(). The generated archetype/world layer (the code ecs_world! emits for a two-archetype schema, obtained by evaluating the generator functions of macros/src/generate/world.rs as text: R-quote) and the default methods of traits Archetype/World are verified too: generated len/capacity/is_empty/new/with_capacity/create_within_capacity delegate exactly; World::with_capacity gives each archetype its own capacity field.',
         'contract-based deductive verification (Verus)', '7 C12'),
 'C13': ('proof', 'clone_body: every abstract view of the clone equals the original (len, capacity, version, free head, whole slot array incl. free links, handle array), each live cell cloned exactly once (cloned(a,b)), wf() of the clone. The generated archetype/world layer (the code ecs_world! emits for a two-archetype schema, obtained by evaluating the generator functions of macros/src/generate/world.rs as text: R-quote) and the default methods of traits Archetype/World are verified too: generated Clone of archetype and world is clone_post per archetype.',
         'contract-based deductive verification (Verus) with loop invariants on the two clone loops', '7 C13'),
 'C14': ('proof', 'Verus contracts on every conversion in entity.rs for all 2^32 keys and all generations (bit-vector lemmas for key packing), PartialEq specs, injectivity of the 64-bit word fed to the hasher. The generated archetype/world layer (the code ecs_world! emits for a two-archetype schema, obtained by evaluating the generator functions of macros/src/generate/world.rs as text: R-quote) and the default methods of traits Archetype/World are verified too: every generated From/TryFrom impl of SelectArchetype, SelectEntity, SelectEntityDirect and the hidden select-total enum is checked against a ghost spec (Ok(variant(wrap(v))) exactly when the archetype id matches, else InvalidEntityType).',
         'contract-based deductive verification (Verus) + bit_vector lemmas', '7 C14'),
 'C15': ('proof', 'advance_attribute_id (real body, syn types stubbed) implements exactly the enum-discriminant rule rule_next_id and rejects an id iff it is already assigned or would count past 255; lemma_rule_fold: folding that step over ANY sequence of items yields pairwise distinct ids obeying the rule, or the first error. Partial claim: the loop of DataWorld::new, the emission of the constants and "fails to compile" are not covered (see level_note). Emission: for the instantiated schemas (ids deliberately not ascending, with gaps) the generated ARCHETYPE_ID / COMPONENT_ID / NUM_ARCHETYPES constants are checked to be the ids of the declaration and pairwise distinct (world unit, R-quote).',
         'contract-based deductive verification (Verus) of the id-assignment function + fold lemma', '7 C15'),
 'C16': ('proof', 'PARTIAL, relative to the evaluated cfg table (predicate text -> bool) the macro chain hands to the parsers: Verus proves on the real bodies that (1) collect_all_cfg_predicates / get_cfg_predicates collect exactly the predicates decorating the declaration / the query, pairwise distinct (so every decorating predicate gets a table entry); (2) evaluate_cfgs / is_cfg_enabled report an item enabled iff EVERY one of its predicates is true in the table (an item without attributes is enabled); (3) DataWorld::new produces a result that depends on the declaration only through its enabled items (a disabled archetype or component consumes no id and is not in the world data: lemma_c16_data; with no false predicate the selection is the declaration itself: lemma_c16_all_enabled), so everything generated from the world data (ids, storage, Select tables) is as if the disabled items had not been written and the true attributes were absent; (4) bind_query_params: a cfg-disabled parameter never constrains which archetypes match (lemma_c16_binds) and a cfg-decorated OneOf is rejected. OUTSIDE: the evaluation of the predicates by rustc through the generated cfg-probing macro chain (macros/src/generate/cfg.rs) and the order in which it threads the booleans, the syn parsers, the #[cfg] attributes re-emitted on closure parameters. The table-building tail of ParseCfgDecorated::parse is verified as a slice (the i-th collected predicate maps to the i-th boolean).',
         'contract-based deductive verification (Verus) of the cfg collection / evaluation / selection functions + lemmas over their contracts (partial: relative to the evaluated table)', '7 C16'),
 'C17': ('proof', 'events configuration: force_create pushes exactly the returned handle to created, force_destroy exactly the removed handle to destroyed, clear_events empties both and changes nothing else, every other &mut method has both logs in its frame, clone copies them. The generated archetype/world layer (the code ecs_world! emits for a two-archetype schema, obtained by evaluating the generator functions of macros/src/generate/world.rs as text: R-quote) and the default methods of traits Archetype/World are verified too: generated clear_events of archetype and world clears every archetype\'s logs; the generated iter_created/iter_destroyed and EcsEventIterator::next yield exactly the concatenation of the archetypes\' lists, each handle once, in order, with an exact size_hint at every position (ghost view over the remaining elements of the slice iterators).',
         'contract-based deductive verification (Verus) under the events feature', '7 C17'),
 'C19': ('proof', 'The whole obligation set is re-extracted and re-verified under all 8 feature x profile configurations (quick: N=1; thorough: N in {1,2,3,16,17,32}); wrapping_version changes only the next() contract while every C03/C04 obligation still discharges unconditionally.',
         'contract-based deductive verification (Verus) as a configuration matrix', '7 C19'),
}

NOT_APPLICABLE = {
 'C11': "RefCell's dynamic borrow flag x nested generated programs is not expressible as a contract on any gecs function (Verus models only the functional value of borrow/borrow_mut); DESIGN.md 7 C11",
 'C18': 'compile-time acceptance/rejection, auto traits and token content of expansions are rustc judgments, not pre/postconditions; DESIGN.md 7 C18',
}

NOTE = ('Trusted base / assumptions: Verus+Z3+rustc front end; assumed std specifications (contracts/prelude.rs); DataPtr contracts (raw-pointer bodies '
        'outside Verus, bounded Kani in the thorough tier); generated-layer results are for ONE schema (R-quote); results per instantiated N; extraction rules R-* '
        '(DESIGN.md 3). Verus gives no counterexamples: a VIOLATION names the failed obligation and ends with no-failing-input-found.')


def main():
    checks = []
    for pid in sorted(CLAIMED):
        cat, text, tech, ref = CLAIMED[pid]
        checks.append({
            'property_id': pid,
            'quick_cmd': './check %s --tier quick' % pid,
            'thorough_cmd': './check %s --tier thorough' % pid,
            'evidence_file': 'evidence/%s.json' % pid,
            'replay_cmd_template': './replay {path}',
            'engine': 'gv',
            'level_claimed': {'category': cat, 'text': text, 'design_ref': 'DESIGN.md section ' + ref},
            'level_note': NOTE,
            'technique': tech,
        })
    m = {
        'version': 1,
        'setup_cmd': 'python3 -c "import sys; sys.path.insert(0, \'.\'); import gv.runner, gv.props" && verus --version',
        'hooks': {
            'guard': 'cfg(kani)',
            'enable': 'no hook is compiled into /repo: contracts live in /verif/contracts (sidecar) and are merged into text extracted from /repo on every run; Kani harness modules are appended to a scratch copy only',
            'baseline_off_cmd': 'cd /repo && cargo test --workspace --no-fail-fast --offline',
            'source_commits': [],
            'add_only': True,
        },
        'engines': [{'name': 'gv', 'path': 'gv/', 'serves_properties': sorted(CLAIMED),
                     'kind_free_text': 'mechanical extractor (R-* rules) + contract sidecar + Verus runner; Kani harnesses for the raw-pointer layer'}],
        'checks': checks,
        'not_applicable': [{'property_id': k, 'reason': v} for k, v in sorted(NOT_APPLICABLE.items())],
        'notes': 'Fix commits in /repo (genuine defects, see known_findings.json): afa51b6 (F2), 7190256 (F1), a545df1 (F4). exit 2 = tool could not decide (never an alarm).',
    }
    json.dump(m, open('MANIFEST.json', 'w'), indent=1)


main()
